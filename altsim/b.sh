#!/bin/sh
# build helper: show only altsim's own diagnostics
cd /verif/altsim && cargo build --offline 2>&1 | awk '/^(warning|error)/{p=0} /^(warning|error).*/{hdr=$0} /--> src\//{p=1; print hdr} p{print}' | head -${1:-60}; cargo build --offline 2>&1 | tail -1
