//! World `trk` (track & path): a `PathTpc` grown by a seeded history of `extend` calls over a generated
//! network (every partition of the route, empty extensions, reload of the half-built path between two
//! extensions, non-contiguous / unreal extensions that must be refused), with the pointwise-minimum
//! speed reference (C02 <=, C13 = and canonical form) and the geometry reference (C06) evaluated after
//! every extension, plus the bit-exact differential "any partition == one call".

use crate::core::*;
use crate::net::*;
use crate::rng::Rng;
use crate::ser::{self, Chan, Fmt};
use altrios_core::track::*;
use altrios_core::uc;
use serde::{Deserialize, Serialize};

#[derive(Serialize, Deserialize, Clone, Debug, PartialEq)]
pub enum Op {
    /// extend by the next k links of the route
    Extend(usize),
    ExtendEmpty,
    Crash { fmt: Fmt, chan: Chan },
    /// an extension that must be refused: the next `with_legal` links of the route followed, in the same
    /// call, by a link that does not continue them (or the dummy link 0)
    ExtendBad { link: u32, #[serde(default)] with_legal: usize },
}

#[derive(Serialize, Deserialize, Clone, Debug)]
pub struct TrainSpec {
    pub length: f64,
    pub speed_max: f64,
    pub towed_mass_static: f64,
    pub mass_per_brake: f64,
    pub axle_count: u32,
    pub curve_coeff: (f64, f64, f64),
    #[serde(default = "freight")]
    pub train_type: TrainType,
}
fn freight() -> TrainType {
    TrainType::Freight
}
/// train type as a function of the case's own random bits (no extra draw: older replay files keep their meaning)
pub fn type_from_bits(bits: u64) -> TrainType {
    match bits % 20 {
        0..=10 => TrainType::Freight,
        11..=16 => TrainType::Intermodal,
        _ => TrainType::Passenger,
    }
}

#[derive(Serialize, Deserialize, Clone, Debug)]
pub struct Case {
    pub links: Vec<Link>,
    pub train: TrainSpec,
    pub route: Vec<u32>,
    pub ops: Vec<Op>,
    pub finish: bool,
    pub hash_seed: u64,
    /// position in the route of a link whose per-train-type map of restriction sets has no entry for this train's
    /// type (and no general set): an extension that reaches it must be refused - the same way whatever the map's
    /// iteration order - and never borrow another type's restrictions
    #[serde(default)]
    pub no_set_for_type_at: Option<usize>,
}

pub fn train_params(t: &TrainSpec) -> TrainParams {
    TrainParams {
        length: t.length * uc::M,
        speed_max: t.speed_max * uc::MPS,
        towed_mass_static: t.towed_mass_static * uc::KG,
        mass_per_brake: t.mass_per_brake * uc::KG,
        axle_count: t.axle_count,
        train_type: t.train_type,
        curve_coeff_0: t.curve_coeff.0 * uc::R,
        curve_coeff_1: t.curve_coeff.1 * uc::R,
        curve_coeff_2: t.curve_coeff.2 * uc::R,
    }
}
pub fn train_ref(t: &TrainSpec) -> TrainRefParams {
    TrainRefParams { length: t.length, speed_max: t.speed_max, towed_mass_static: t.towed_mass_static, mass_per_brake: t.mass_per_brake, axle_count: t.axle_count, train_type: t.train_type }
}

pub fn generate(rng: &mut Rng, focus: &str, _thorough: bool) -> Case {
    let mut o = NetOpts::small(rng);
    if focus == "C13" || focus == "C02" {
        // dense in the shapes the quantifier names: short links, many restrictions on few grid cells
        if rng.chance(0.6) {
            o.main_len = (30.0, 200.0);
            o.siding_len = (30.0, 150.0);
            o.max_restr = rng.usize(1, 6);
        }
    }
    if focus == "C18" && rng.chance(0.7) {
        // per-train-type maps of restriction sets: their iteration order is the nondeterminism in question
        o.by_type = true;
    }
    let links = gen_network(rng, &o);
    let ns = o.n_sidings;
    let choice = rng.next();
    let fwd = rng.chance(0.7);
    let full: Vec<usize> = if fwd { fwd_route(ns, choice) } else { rev_route(ns, choice) };
    // any contiguous sub-route
    let a = rng.usize(0, full.len() - 1);
    let b = rng.usize(a, full.len() - 1);
    let route: Vec<u32> = full[a..=b].iter().map(|x| *x as u32).collect();
    let speed_max = *rng.pick(&[9.0, 13.0, 17.0, 21.0, 25.0, 40.0]);
    let train = TrainSpec {
        length: if rng.chance(0.6) { rng.usize(1, 40) as f64 * o.grid } else { Rng::round_sig(rng.range(20.0, 3000.0), 4) },
        speed_max,
        towed_mass_static: *rng.pick(&[8.0e5, 1.0e6, 5.0e6, 1.0e7, 1.43e7]),
        mass_per_brake: *rng.pick(&[5.0e4, 1.0e5, 1.3e5, 1.43e5]),
        axle_count: *rng.pick(&[100, 200, 400, 600]),
        curve_coeff: if rng.chance(0.3) { (0.0, 0.0, 0.0) } else { (0.056, 0.4387579, 0.01025485) },
        train_type: TrainType::Freight,
    };
    // partition of the route into successive extensions, with empty extensions, reloads and refused extensions
    let mut ops = vec![];
    let mut left = route.len();
    let style = rng.below(4);
    while left > 0 {
        let k = match style {
            0 => left,
            1 => 1,
            _ => rng.usize(1, left),
        };
        if rng.chance(0.15) {
            ops.push(Op::ExtendEmpty);
        }
        if rng.chance(0.12) {
            let fmt = *rng.pick(&[Fmt::Yaml, Fmt::Bin, Fmt::Json]);
            ops.push(Op::Crash { fmt, chan: if rng.chance(0.3) { Chan::Reader { seed: rng.next() } } else { Chan::Str } });
        }
        ops.push(Op::Extend(k));
        left -= k;
    }
    if rng.chance(0.25) {
        let bad = if rng.chance(0.3) { 0 } else { rng.usize(1, links.len() - 1) as u32 };
        let op = Op::ExtendBad { link: bad, with_legal: rng.usize(0, 2) };
        // anywhere in the history, in particular as the very first call on a fresh path
        let pos = if rng.chance(0.4) { 0 } else { rng.usize(0, ops.len()) };
        ops.insert(pos, op);
    }
    if rng.chance(0.2) {
        ops.push(Op::Crash { fmt: *rng.pick(&[Fmt::Yaml, Fmt::Bin, Fmt::Json]), chan: Chan::Str });
    }
    let mut c = Case { links, train, route, ops, finish: rng.chance(0.5), hash_seed: rng.next(), no_set_for_type_at: None };
    c.train.train_type = type_from_bits(c.hash_seed >> 17);
    if focus != "C06" && rng.chance(if focus == "C18" { 0.5 } else { 0.12 }) {
        let at = rng.usize(0, c.route.len() - 1);
        let l = &mut c.links[c.route[at] as usize];
        if l.speed_set.is_none() && l.speed_sets.len() >= 3 && l.speed_sets.remove(&c.train.train_type).is_some() {
            c.no_set_for_type_at = Some(at);
        }
    }
    c
}

fn speed_pts(p: &PathTpc) -> Vec<(f64, f64)> {
    p.speed_points().iter().map(|sp| (sp.offset.value, sp.speed_limit.value)).collect()
}

/// C02 / C13 on the current path (prefix of the route)
pub fn check_speeds(ctx: &mut Ctx, p: &PathTpc, links: &[Link], route_done: &[usize], t: &TrainSpec, after: &str, ulp_slack: bool) {
    let pts = speed_pts(p);
    let tr = train_ref(t);
    let restr = route_restrictions(links, route_done, &tr);
    let path_end: f64 = route_done.iter().map(|l| links[*l].length.value).sum();
    let mut bps: Vec<f64> = vec![0.0, path_end, path_end + t.length + 50.0];
    for (a, b, _) in &restr {
        bps.push(*a);
        bps.push(*b);
    }
    for (o, _) in &pts {
        bps.push(*o);
    }
    bps.retain(|x| x.is_finite());
    bps.sort_by(|a, b| a.partial_cmp(b).unwrap());
    bps.dedup();
    let mut n_above = 0;
    let mut n_below = 0;
    let mut first_bad = None;
    let mut eval = |x: f64| {
        let e = enforced_limit(&pts, x);
        let r = ref_limit(&restr, t.speed_max, x);
        if e > r || e.is_nan() {
            n_above += 1;
            if first_bad.is_none() {
                first_bad = Some((x, e, r));
            }
        } else if e < r {
            n_below += 1;
            if first_bad.is_none() {
                first_bad = Some((x, e, r));
            }
        }
    };
    for w in bps.windows(2) {
        // after a JSON reload offsets may have moved by one unit in the last place (the statement's own
        // allowance): exact breakpoints and slivers between nearly coincident breakpoints are not evaluated
        if ulp_slack {
            if w[1] - w[0] > 1e-6 {
                eval(0.5 * (w[0] + w[1]));
            }
            continue;
        }
        eval(0.5 * (w[0] + w[1]));
        eval(w[0]); // breakpoint approached from the right
    }
    if n_above > 0 {
        let (x, e, r) = first_bad.unwrap();
        ctx.violate("C02", "speed_profile", "enforced<=min(posted,train max)", format!("after {after}: at offset {x} m enforced {e} m/s > tightest posted {r} m/s ({n_above} positions); profile {:?}", &pts[..pts.len().min(12)]));
    }
    if n_below > 0 {
        let (x, e, r) = first_bad.unwrap();
        // how the too-low stretch arises (for the finding signature): is it directly after a restriction
        // that lies strictly inside one profile segment?
        ctx.violate("C13", "speed_profile", "enforced=min(posted,train max)", format!("after {after}: at offset {x} m enforced {e} m/s < tightest posted {r} m/s ({n_below} positions): train is slowed by a restriction that does not cover this position; profile {:?}", &pts[..pts.len().min(12)]));
    }
    // canonical form
    if pts.is_empty() || pts[0].0 != 0.0 {
        ctx.violate("C13", "canonical", "first point at path start", format!("after {after}: profile {:?}", &pts[..pts.len().min(6)]));
    }
    if !pts.windows(2).all(|w| w[0].0 <= w[1].0) {
        ctx.violate("C13", "canonical", "offsets sorted", format!("after {after}: profile {:?}", &pts[..pts.len().min(12)]));
    }
    if pts.windows(2).any(|w| w[0].1 == w[1].1) {
        ctx.violate("C13", "canonical", "no equal-valued neighbours", format!("after {after}: profile {:?}", &pts[..pts.len().min(12)]));
    }
    // reach probes
    if restr.iter().any(|(a, b, s)| *s < t.speed_max && restr.iter().any(|(a2, b2, s2)| a2 < a && b < b2 && *s2 < t.speed_max && s2 != s)) {
        ctx.hit("probe.speed.restriction_strictly_inside_another");
    }
    if restr.iter().any(|(a, b, _)| a == b) {
        ctx.hit("probe.speed.zero_length_restriction");
    }
    if pts.len() > 3 {
        ctx.hit("probe.speed.profile_has_4plus_points");
    }
}

/// C06 reference on the current path
fn check_geometry(ctx: &mut Ctx, p: &PathTpc, links: &[Link], route_done: &[usize], t: &TrainSpec, finished: bool, after: &str) {
    let lp = p.link_points();
    // link points at cumulative lengths
    let mut base = 0.0;
    let mut ok_lp = lp.len() == route_done.len() + 1;
    if ok_lp {
        for (k, l) in route_done.iter().enumerate() {
            if lp[k].offset.value != base || lp[k].link_idx.idx() != *l {
                ok_lp = false;
            }
            base = links[*l].length.value + base;
        }
        if lp[route_done.len()].offset.value != base || lp[route_done.len()].link_idx.idx() != 0 {
            ok_lp = false;
        }
    }
    if !ok_lp {
        ctx.violate("C06", "geometry", "segment boundaries at cumulative lengths", format!("after {after}: link points {:?} for route {:?}", lp.iter().map(|x| (x.offset.value, x.link_idx.idx())).collect::<Vec<_>>(), route_done));
        return;
    }
    let path_end = base;
    // count bookkeeping
    let extra = if finished { 1 } else { 0 };
    let gc: usize = lp.iter().map(|x| x.grade_count).sum();
    let cc: usize = lp.iter().map(|x| x.curve_count).sum();
    let pc: usize = lp.iter().map(|x| x.cat_power_count).sum();
    if gc + 1 + extra != p.grades().len() || cc + 1 + extra != p.curves().len() || pc != p.cat_power_limits().len() {
        ctx.violate("C06", "geometry", "index counts consistent", format!("after {after}: sum grade_count {gc} vs grades {} ; curve_count {cc} vs curves {} ; cat_power_count {pc} vs cat {} (finished {finished})", p.grades().len(), p.curves().len(), p.cat_power_limits().len()));
        return;
    }
    let mut gi = 0;
    let mut ci = 0;
    for (k, x) in lp.iter().enumerate().take(route_done.len()) {
        if p.grades()[gi].offset != x.offset || p.curves()[ci].offset != x.offset {
            ctx.violate("C06", "geometry", "index counts consistent", format!("after {after}: link {k} starts at {} but grades[{gi}].offset = {} curves[{ci}].offset = {}", x.offset.value, p.grades()[gi].offset.value, p.curves()[ci].offset.value));
            return;
        }
        gi += x.grade_count;
        ci += x.curve_count;
    }
    if route_done.is_empty() {
        return;
    }
    // elevation, grade, curve at breakpoints and interior positions
    let scale_e = 1.0 + links.iter().flat_map(|l| l.elevs.iter()).map(|e| e.elev.value.abs()).fold(0.0, f64::max);
    let g = p.grades();
    let n = g.len() - extra;
    for j in 0..n {
        let x0 = g[j].offset.value;
        let e_ref = ref_elev(links, route_done, x0);
        if !close(g[j].res_net.value, e_ref, 1e-9, 1e-9, scale_e) {
            ctx.violate("C06", "geometry", "elevation equals the route's own elevation walk", format!("after {after}: at offset {x0} m path elevation {} vs reference {e_ref}", g[j].res_net.value));
            return;
        }
        if j + 1 < n {
            let x1 = g[j + 1].offset.value;
            for f in [0.25, 0.5, 0.9] {
                let x = x0 + f * (x1 - x0);
                let e = g[j].calc_res_val(x * uc::M).value;
                let er = ref_elev(links, route_done, x);
                if !close(e, er, 1e-9, 1e-9, scale_e) {
                    ctx.violate("C06", "geometry", "elevation equals the route's own elevation walk", format!("after {after}: at offset {x} m path elevation {e} vs reference {er} (grade {})", g[j].res_coeff.value));
                    return;
                }
            }
            let slope = (ref_elev(links, route_done, x1) - e_ref) / (x1 - x0);
            if !close(g[j].res_coeff.value, slope, 1e-7, 1e-10, 0.0) {
                ctx.violate("C06", "geometry", "grade equals slope", format!("after {after}: segment [{x0},{x1}] grade {} vs slope {slope}", g[j].res_coeff.value));
                return;
            }
        }
    }
    if n > 0 && g[n - 1].offset.value != path_end {
        ctx.violate("C06", "geometry", "profile ends at path end", format!("after {after}: last grade offset {} vs path end {path_end}", g[n - 1].offset.value));
    }
    let c = p.curves();
    let nc = c.len() - extra;
    let cf = t.curve_coeff;
    let scale_c = 1e-6 + c.iter().map(|x| x.res_net.value.abs()).fold(0.0, f64::max);
    for j in 0..nc {
        let x0 = c[j].offset.value;
        let r_ref = ref_curve_net(links, route_done, x0, cf);
        if !close(c[j].res_net.value, r_ref, 1e-9, 1e-12, scale_c) {
            ctx.violate("C06", "geometry", "cumulative curve resistance equals reference", format!("after {after}: at offset {x0} m path {} vs reference {r_ref}", c[j].res_net.value));
            return;
        }
        if j + 1 < nc {
            let x1 = c[j + 1].offset.value;
            let x = 0.5 * (x0 + x1);
            let v = c[j].calc_res_val(x * uc::M).value;
            let vr = ref_curve_net(links, route_done, x, cf);
            if !close(v, vr, 1e-9, 1e-12, scale_c) {
                ctx.violate("C06", "geometry", "cumulative curve resistance equals reference", format!("after {after}: at offset {x} m path {v} vs reference {vr} (coeff {})", c[j].res_coeff.value));
                return;
            }
            if c[j].res_coeff.value != 0.0 {
                ctx.hit("probe.geo.curved_segment");
            }
        }
    }
    if nc > 0 && c[nc - 1].offset.value != path_end {
        ctx.violate("C06", "geometry", "profile ends at path end", format!("after {after}: last curve offset {} vs path end {path_end}", c[nc - 1].offset.value));
    }
    // catenary limits shifted by the link base offsets
    let mut want = vec![];
    let mut b = 0.0;
    for l in route_done {
        for cp in &links[*l].cat_power_limits {
            want.push((b + cp.offset_start.value, b + cp.offset_end.value, cp.power_limit.value));
        }
        b = links[*l].length.value + b;
    }
    let got: Vec<(f64, f64, f64)> = p.cat_power_limits().iter().map(|c| (c.offset_start.value, c.offset_end.value, c.power_limit.value)).collect();
    if got != want {
        ctx.violate("C06", "geometry", "catenary limits shifted by link offsets", format!("after {after}: {:?} vs reference {:?}", &got[..got.len().min(4)], &want[..want.len().min(4)]));
    }
    if !want.is_empty() {
        ctx.hit("probe.geo.catenary_on_route");
    }
    if finished {
        let gl = p.grades().last().unwrap();
        let cl = p.curves().last().unwrap();
        if !(gl.offset.value == f64::INFINITY && cl.offset.value == f64::INFINITY && gl.res_coeff.value == 0.0) {
            ctx.violate("C06", "geometry", "finish() appends flat sentinels", format!("after {after}: last grade {:?} last curve {:?}", gl, cl));
        }
    }
}

pub fn execute(case: &Case, ctx: &mut Ctx) {
    let links = &case.links;
    let tp = train_params(&case.train);
    let route: Vec<usize> = case.route.iter().map(|x| *x as usize).collect();
    let lroute: Vec<LinkIdx> = case.route.iter().map(|x| LinkIdx::new(*x)).collect();
    ctx.class.push(format!("trk:links{}:route{}:ops{}", links.len().min(12), route.len(), case.ops.len().min(6)));
    ctx.layer = "scenario-construction";
    let mut p = PathTpc::new(tp);
    let mut done = 0usize;
    let mut n_ext = 0;
    let json_used = std::cell::Cell::new(false);
    let do_extend = |ctx: &mut Ctx, p: &mut PathTpc, done: &mut usize, k: usize, what: &str| -> bool {
        let k = k.min(route.len() - *done);
        ctx.layer = "path.extend";
        let must_refuse = case.no_set_for_type_at.map(|at| at >= *done && at < *done + k).unwrap_or(false);
        match p.extend(links, &lroute[*done..*done + k]) {
            Err(_) if must_refuse => {
                // (the error text lists the map's keys in iteration order: it is not part of the compared outcome)
                ctx.hit("fault.net.no_restriction_set_for_this_train_type");
                ctx.trace.u(0x5e7_0000 + *done as u64);
                false
            }
            Ok(()) if must_refuse => {
                for sp in p.speed_points() {
                    ctx.trace.f(sp.offset.value);
                    ctx.trace.f(sp.speed_limit.value);
                }
                ctx.violate("C13", "speed_profile", "a link that posts nothing for this train type is refused, not given another type's restrictions", format!("{what}: extension over route position {:?} accepted; profile {:?}", case.no_set_for_type_at, speed_pts(p).iter().take(8).collect::<Vec<_>>()));
                false
            }
            Ok(()) => {
                *done += k;
                ctx.hit("stat.extend_calls");
                check_speeds(ctx, p, links, &route[..*done], &case.train, what, json_used.get());
                check_geometry(ctx, p, links, &route[..*done], &case.train, false, what);
                for sp in p.speed_points() {
                    ctx.trace.f(sp.offset.value);
                    ctx.trace.f(sp.speed_limit.value);
                }
                ctx.trace.u(p.grades().len() as u64);
                true
            }
            Err(e) => {
                // a contiguous route over a generated (valid) network must be accepted
                ctx.violate("C06", "geometry", "contiguous extension accepted", format!("{what}: extend refused: {}", format!("{e:#}").lines().next().unwrap_or("")));
                false
            }
        }
    };
    for (k, op) in case.ops.iter().enumerate() {
        ctx.event = k;
        match op {
            Op::Extend(n) => {
                n_ext += 1;
                if !do_extend(ctx, &mut p, &mut done, *n, &format!("extend #{n_ext} (+{n} links)")) {
                    return;
                }
            }
            Op::ExtendEmpty => {
                let before = p.clone();
                ctx.layer = "path.extend";
                match p.extend(links, &lroute[0..0]) {
                    Ok(()) => {
                        ctx.hit("fault.authority.empty_extension");
                        if p != before {
                            ctx.violate("C06", "differential", "empty extension changes nothing", "path differs after extend(&[])".into());
                        }
                    }
                    Err(e) => ctx.violate("C06", "geometry", "contiguous extension accepted", format!("empty extension refused: {e:#}")),
                }
            }
            Op::Crash { fmt, chan } => {
                ctx.layer = "save/load";
                match ser::crash_restore(&p, *fmt, *chan, ctx) {
                    Ok((q, used)) => {
                        if used && *fmt == Fmt::Json {
                            // parser rounding of one ulp per number is allowed for JSON: no bit-exact differential afterwards
                            json_used.set(true);
                        }
                        if used && *fmt != Fmt::Json && q != p {
                            ctx.violate("C17", "roundtrip", "reloaded half-built path equals the original", format!("{fmt:?} reload of PathTpc differs"));
                        }
                        p = q;
                    }
                    Err(e) => {
                        ctx.violate("C17", "roundtrip", "yaml reload of a state reached by simulation", e);
                        return;
                    }
                }
            }
            Op::ExtendBad { link, with_legal } => {
                ctx.layer = "path.extend";
                let k = (*with_legal).min(route.len() - done);
                // refused unless the link happens to be a legal continuation of what precedes it
                let prev: Option<u32> = if k > 0 { Some(route[done + k - 1] as u32) } else if done > 0 { Some(route[done - 1] as u32) } else { None };
                let legal = *link != 0
                    && match prev {
                        None => true,
                        Some(last) => {
                            let l = &links[*link as usize];
                            l.idx_prev == LinkIdx::new(last) || l.idx_prev_alt == LinkIdx::new(last)
                        }
                    };
                if legal {
                    continue;
                }
                let mut q = p.clone();
                let mut ext: Vec<LinkIdx> = lroute[done..done + k].to_vec();
                ext.push(LinkIdx::new(*link));
                let r = q.extend(links, &ext);
                ctx.hit("fault.extend.non_contiguous_or_unreal");
                if done == 0 && k > 0 {
                    ctx.hit("probe.extend.bad_link_in_first_call_on_fresh_path");
                }
                if r.is_ok() {
                    ctx.violate("C06", "geometry", "non-contiguous route is rejected", format!("extend with {:?} after {:?} accepted", ext.iter().map(|x| x.idx()).collect::<Vec<_>>(), &route[..done]));
                }
                // nothing is promised about the partially extended object after such an error: discard it
            }
        }
    }
    if done < route.len() {
        ctx.event = case.ops.len();
        let n = route.len() - done;
        if !do_extend(ctx, &mut p, &mut done, n, "final extend") {
            return;
        }
    }
    ctx.nontrivial = route.len() >= 2 || p.speed_points().len() >= 3;
    // differential, bit-exact: any partition == one call
    ctx.layer = "path.extend";
    let mut whole = PathTpc::new(tp);
    if whole.extend(links, &lroute).is_ok() && !json_used.get() {
        if whole != p {
            let what = if whole.speed_points() != p.speed_points() { "speed points" } else if whole.grades() != p.grades() { "grades" } else if whole.curves() != p.curves() { "curves" } else if whole.link_points() != p.link_points() { "link points" } else { "other" };
            ctx.violate("C06", "differential", "any sequence of extensions = one call (bit-exact)", format!("{what} differ between the {}-op history and the one-call build", case.ops.len()));
        }
        ctx.hit("stat.partition_vs_onecall_compared");
    }
    if case.finish {
        p.finish();
        check_geometry(ctx, &p, links, &route, &case.train, true, "finish");
        // finished paths hold infinite sentinels; they must survive a reload (yaml / bincode)
        ctx.layer = "save/load";
        for fmt in [Fmt::Yaml, Fmt::Bin] {
            match ser::reload(&p, fmt, Chan::Str, ctx) {
                Ok(q) => {
                    if q != p {
                        ctx.violate("C17", "roundtrip", "reloaded finished path equals the original", format!("{fmt:?}"));
                    }
                }
                Err(e) => ctx.violate("C17", "roundtrip", "finished path reloads", format!("{fmt:?}: {e:#}")),
            }
        }
    }
}

pub fn shrink(case: &Case) -> Vec<Case> {
    let mut out = vec![];
    // fewer ops
    for k in 0..case.ops.len() {
        let mut c = case.clone();
        c.ops.remove(k);
        out.push(c);
    }
    // shorter route
    if case.route.len() > 1 {
        let mut c = case.clone();
        c.route.pop();
        out.push(c);
        let mut c = case.clone();
        c.route.remove(0);
        out.push(c);
    }
    // fewer restrictions / elevation points / headings / cat sections on route links
    for (li, l) in case.links.iter().enumerate() {
        if !case.route.contains(&(li as u32)) {
            continue;
        }
        if let Some(ss) = &l.speed_set {
            for k in 0..ss.speed_limits.len() {
                if ss.speed_limits.len() > 1 {
                    let mut c = case.clone();
                    c.links[li].speed_set.as_mut().unwrap().speed_limits.remove(k);
                    out.push(c);
                }
            }
            if !ss.speed_params.is_empty() {
                let mut c = case.clone();
                c.links[li].speed_set.as_mut().unwrap().speed_params.clear();
                out.push(c);
            }
        }
        if l.elevs.len() > 2 {
            let mut c = case.clone();
            c.links[li].elevs.remove(1);
            out.push(c);
        }
        if !l.headings.is_empty() {
            let mut c = case.clone();
            c.links[li].headings.clear();
            out.push(c);
        }
        if !l.cat_power_limits.is_empty() {
            let mut c = case.clone();
            c.links[li].cat_power_limits.clear();
            out.push(c);
        }
    }
    if case.finish {
        let mut c = case.clone();
        c.finish = false;
        out.push(c);
    }
    out
}
