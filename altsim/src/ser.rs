//! Storage seam (N4/N5): save/load of any `SerdeAPI` object through a simulated channel.
//! `from_reader<R: Read>` is the seam the code already has; the simulated reader delivers short
//! reads, `Interrupted`, hard errors and early EOF at seeded positions.

use crate::core::Ctx;
use crate::rng::Rng;
use altrios_core::traits::SerdeAPI;
use serde::{Deserialize, Serialize};
use std::io::{self, Read};

#[derive(Serialize, Deserialize, Clone, Copy, Debug, PartialEq, Eq)]
pub enum Fmt {
    Yaml,
    Json,
    Bin,
}
impl Fmt {
    pub fn ext(&self) -> &'static str {
        match self {
            Fmt::Yaml => "yaml",
            Fmt::Json => "json",
            Fmt::Bin => "bin",
        }
    }
    pub fn all() -> [Fmt; 3] {
        [Fmt::Yaml, Fmt::Json, Fmt::Bin]
    }
}

#[derive(Serialize, Deserialize, Clone, Copy, Debug, PartialEq, Eq)]
pub enum Chan {
    /// to_yaml/to_json/to_bincode + from_*
    Str,
    /// bytes through `from_reader` with a reader that returns short reads and EINTR (legal, transparent)
    Reader { seed: u64 },
    /// real file in a private scratch directory (`to_file` / `from_file`)
    File,
}

/// Reader faults. Transparent ones (short, eintr) must change nothing; hard ones must give `Err`.
pub struct SimReader<'a> {
    data: &'a [u8],
    pos: usize,
    rng: Rng,
    pub short: bool,
    pub eintr: bool,
    /// hard error at this byte offset
    pub eio_at: Option<usize>,
    /// EOF (Ok(0)) at this byte offset
    pub eof_at: Option<usize>,
    pub n_short: u64,
    pub n_eintr: u64,
    pub n_eio: u64,
    pub n_eof: u64,
    last_was_eintr: bool,
}

impl<'a> SimReader<'a> {
    pub fn new(data: &'a [u8], seed: u64) -> Self {
        SimReader {
            data,
            pos: 0,
            rng: Rng::new(seed),
            short: true,
            eintr: true,
            eio_at: None,
            eof_at: None,
            n_short: 0,
            n_eintr: 0,
            n_eio: 0,
            n_eof: 0,
            last_was_eintr: false,
        }
    }
}

impl<'a> Read for SimReader<'a> {
    fn read(&mut self, buf: &mut [u8]) -> io::Result<usize> {
        if buf.is_empty() {
            return Ok(0);
        }
        if let Some(at) = self.eio_at {
            if self.pos >= at {
                self.n_eio += 1;
                return Err(io::Error::new(io::ErrorKind::Other, "simulated EIO"));
            }
        }
        let mut limit = self.data.len();
        if let Some(at) = self.eof_at {
            limit = limit.min(at);
            if self.pos >= limit {
                self.n_eof += 1;
                return Ok(0);
            }
        }
        if let Some(at) = self.eio_at {
            limit = limit.min(at);
        }
        if self.eintr && !self.last_was_eintr && self.rng.chance(0.05) {
            self.last_was_eintr = true;
            self.n_eintr += 1;
            return Err(io::Error::new(io::ErrorKind::Interrupted, "simulated EINTR"));
        }
        self.last_was_eintr = false;
        let avail = limit - self.pos;
        if avail == 0 {
            return Ok(0);
        }
        let mut n = buf.len().min(avail);
        if self.short && n > 1 && self.rng.chance(0.5) {
            n = 1 + self.rng.below(n.min(97) as u64) as usize;
            self.n_short += 1;
        }
        buf[..n].copy_from_slice(&self.data[self.pos..self.pos + n]);
        self.pos += n;
        Ok(n)
    }
}

pub fn to_bytes<T: SerdeAPI>(x: &T, fmt: Fmt) -> anyhow::Result<Vec<u8>> {
    Ok(match fmt {
        Fmt::Yaml => x.to_yaml()?.into_bytes(),
        Fmt::Json => x.to_json()?.into_bytes(),
        Fmt::Bin => x.to_bincode()?,
    })
}

pub fn from_bytes<T: SerdeAPI>(b: &[u8], fmt: Fmt) -> anyhow::Result<T> {
    match fmt {
        Fmt::Yaml => T::from_yaml(std::str::from_utf8(b)?),
        Fmt::Json => T::from_json(std::str::from_utf8(b)?),
        Fmt::Bin => T::from_bincode(b),
    }
}

thread_local! {
    static SCRATCH_N: std::cell::Cell<u64> = const { std::cell::Cell::new(0) };
}

pub fn scratch_dir() -> std::path::PathBuf {
    let base = std::env::var("ALTSIM_SCRATCH").unwrap_or_else(|_| "/var/tmp/altsim-scratch".into());
    let p = std::path::PathBuf::from(base).join(format!("p{}", std::process::id()));
    let _ = std::fs::create_dir_all(&p);
    p
}

/// save + load through the given channel. Transparent reader faults are injected on `Reader`.
pub fn reload<T: SerdeAPI>(x: &T, fmt: Fmt, chan: Chan, ctx: &mut Ctx) -> anyhow::Result<T> {
    match chan {
        Chan::Str => {
            let b = to_bytes(x, fmt)?;
            from_bytes(&b, fmt)
        }
        Chan::Reader { seed } => {
            let b = to_bytes(x, fmt)?;
            let mut r = SimReader::new(&b, seed);
            let out = T::from_reader(&mut r, fmt.ext());
            if r.n_short > 0 {
                ctx.add("fault.read.short", r.n_short);
            }
            if r.n_eintr > 0 {
                ctx.add("fault.read.eintr", r.n_eintr);
            }
            out
        }
        Chan::File => {
            let n = SCRATCH_N.with(|c| {
                let v = c.get();
                c.set(v + 1);
                v
            });
            // Storage state the save meets: two times in three the path already holds an OLDER, LONGER checkpoint
            // (a "latest checkpoint" file rewritten over and over; here: the same rendering followed by a repeat
            // of its last bytes). Whatever the old file held, the new save must replace it completely.
            let stale = n % 3 != 2;
            // ... and it is ONE path per process ("latest.<ext>"): every object saved through the file channel by this
            // worker process - run after run - goes to the same name, the way a checkpoint file is rewritten. Anything
            // that remembers a path instead of reading the file shows up as a reload of an earlier object.
            let p = if stale { scratch_dir().join(format!("latest.{}", fmt.ext())) } else { scratch_dir().join(format!("t{:?}-{}.{}", std::thread::current().id(), n, fmt.ext())) };
            if stale {
                if let Ok(b) = to_bytes(x, fmt) {
                    let mut old = b.clone();
                    old.extend_from_slice(&b[b.len().saturating_sub(200)..]);
                    if std::fs::write(&p, &old).is_ok() {
                        ctx.hit("fault.disk.older_longer_file_in_place");
                    }
                }
            }
            x.to_file(&p)?;
            let out = T::from_file(&p);
            let _ = std::fs::remove_file(&p);
            ctx.hit("fault.crash.file_channel");
            out
        }
    }
}

/// Crash + restart: reload in `fmt`; when the reload itself is unavailable for this object (a
/// C17 matter, DESIGN 2.4) fall back to YAML so that the world being served keeps running.
/// Returns the reloaded object and whether the requested format was used.
pub fn crash_restore<T: SerdeAPI>(x: &T, fmt: Fmt, chan: Chan, ctx: &mut Ctx) -> Result<(T, bool), String> {
    match reload(x, fmt, chan, ctx) {
        Ok(y) => {
            ctx.hit(match fmt {
                Fmt::Yaml => "fault.crash.yaml",
                Fmt::Json => "fault.crash.json",
                Fmt::Bin => "fault.crash.bin",
            });
            Ok((y, true))
        }
        Err(e) => {
            if fmt == Fmt::Yaml {
                return Err(format!("yaml reload failed: {e:#}"));
            }
            ctx.hit(match fmt {
                Fmt::Json => "fault.crash.json.unavailable",
                _ => "fault.crash.bin.unavailable",
            });
            match reload(x, Fmt::Yaml, Chan::Str, ctx) {
                Ok(y) => {
                    ctx.hit("fault.crash.yaml");
                    Ok((y, false))
                }
                Err(e2) => Err(format!("yaml fallback reload failed: {e2:#}")),
            }
        }
    }
}
