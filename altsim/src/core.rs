//! Shared vocabulary: violations, per-run context (monitor events, fault/probe counters, trace hash).

use crate::rng::Trace;
use serde::{Deserialize, Serialize};
use std::collections::BTreeMap;

pub type Sig = BTreeMap<String, serde_json::Value>;

#[derive(Serialize, Deserialize, Clone, Debug)]
pub struct Violation {
    pub property: String,
    /// monitor = reference model that fired, clause = which inequality / equality of it
    pub monitor: String,
    pub clause: String,
    /// layer the driver was in when it happened (attribution, DESIGN 2.10)
    pub layer: String,
    /// index of the operation / event at which the clause first failed
    pub event: usize,
    pub detail: String,
    /// structured fields that known-finding signature predicates look at
    #[serde(default)]
    pub sig: Sig,
}

impl Violation {
    pub fn key(&self) -> String {
        format!("{}/{}/{}", self.property, self.monitor, self.clause)
    }
}

#[derive(Clone, Copy, PartialEq, Eq, Debug)]
pub enum Tier {
    Quick,
    Thorough,
}
impl Tier {
    pub fn name(&self) -> &'static str {
        match self {
            Tier::Quick => "quick",
            Tier::Thorough => "thorough",
        }
    }
}

/// Per-run context handed to a world's `execute`.
pub struct Ctx {
    pub viol: Vec<Violation>,
    pub counters: BTreeMap<&'static str, u64>,
    pub dyn_counters: BTreeMap<String, u64>,
    pub trace: Trace,
    pub sim_s: f64,
    pub event: usize,
    pub layer: &'static str,
    /// class features of the run (scenario class, fault kinds fired, probes hit) -> distinct key
    pub class: Vec<String>,
    pub nontrivial: bool,
    per_key: BTreeMap<String, u32>,
}

impl Default for Ctx {
    fn default() -> Self {
        Ctx {
            viol: vec![],
            counters: BTreeMap::new(),
            dyn_counters: BTreeMap::new(),
            trace: Trace::default(),
            sim_s: 0.0,
            event: 0,
            layer: "setup",
            class: vec![],
            nontrivial: false,
            per_key: BTreeMap::new(),
        }
    }
}

impl Ctx {
    #[inline]
    pub fn hit(&mut self, name: &'static str) {
        *self.counters.entry(name).or_insert(0) += 1;
    }
    #[inline]
    pub fn add(&mut self, name: &'static str, n: u64) {
        *self.counters.entry(name).or_insert(0) += n;
    }
    pub fn hit_dyn(&mut self, name: String) {
        // numbers are replaced by K so that one cause is one key in the evidence
        if name.starts_with("unarmed.") {
            *self.dyn_counters.entry(name).or_insert(0) += 1;
            return;
        }
        let mut key = String::with_capacity(name.len());
        let mut in_num = false;
        for c in name.chars() {
            let numeric = c.is_ascii_digit() || (in_num && (c == '.' || c == 'e' || c == '-'));
            if numeric {
                if !in_num {
                    key.push('K');
                }
                in_num = true;
            } else {
                in_num = false;
                key.push(c);
            }
        }
        *self.dyn_counters.entry(key).or_insert(0) += 1;
    }
    pub fn violate(&mut self, property: &str, monitor: &str, clause: &str, detail: String) {
        self.violate_sig(property, monitor, clause, detail, Sig::new())
    }
    pub fn violate_sig(&mut self, property: &str, monitor: &str, clause: &str, detail: String, sig: Sig) {
        let v = Violation {
            property: property.into(),
            monitor: monitor.into(),
            clause: clause.into(),
            layer: self.layer.into(),
            event: self.event,
            detail,
            sig,
        };
        // keep the first occurrence of each clause only (the first violating event is what replay checks) -
        // separately for instances of each open known finding and for everything else
        let k = format!("{}|{}", v.key(), crate::findings::classify(&v).unwrap_or_default());
        let n = self.per_key.entry(k).or_insert(0);
        *n += 1;
        if *n == 1 && self.viol.len() < 64 {
            self.viol.push(v);
        }
    }
    pub fn class_key(&self) -> u64 {
        let mut parts: Vec<String> = self.class.clone();
        // fault kinds fired and probes hit are part of the class (by presence, not count)
        for (k, _) in self.counters.iter() {
            if k.starts_with("fault.") || k.starts_with("probe.") {
                parts.push((*k).to_string());
            }
        }
        crate::rng::fnv(parts.join("|").as_bytes())
    }
}

/// relative comparison helper: |a-b| <= rel*max(|a|,|b|,scale) + abs
#[inline]
pub fn close(a: f64, b: f64, rel: f64, abs: f64, scale: f64) -> bool {
    let m = a.abs().max(b.abs()).max(scale);
    (a - b).abs() <= rel * m + abs
}

pub fn sig1(k: &str, v: impl Into<serde_json::Value>) -> Sig {
    let mut s = Sig::new();
    s.insert(k.into(), v.into());
    s
}
