//! World `val` (network load & validation, C16): for every generated valid network, every documented
//! structural rule is broken in isolation at every link (enumerated), benign rule-keeping edits are applied
//! the same way, and the verdict of `validate` / of the load paths (string, faulty reader, real file,
//! legacy layout) is compared with an independent reference validator: accepted <=> consistent.
//! A panic or abort anywhere is a violation.

use crate::core::*;
use crate::net::*;
use crate::rng::Rng;
use crate::ser::{Fmt, SimReader};
use altrios_core::track::*;
use altrios_core::traits::SerdeAPI;
use altrios_core::uc;
use altrios_core::validate::ObjState;
use serde::{Deserialize, Serialize};

#[derive(Serialize, Deserialize, Clone, Debug)]
pub struct Case {
    pub links: Vec<Link>,
    /// None = enumerate every mutation kind at every link; Some = only this one (minimised replay)
    pub only: Option<(String, usize)>,
    /// seed for the sampled load-path checks
    pub load_seed: u64,
    pub hash_seed: u64,
}

pub fn generate(rng: &mut Rng, _focus: &str, _thorough: bool) -> Case {
    let mut o = NetOpts::small(rng);
    o.n_sidings = rng.usize(0, 2);
    o.max_restr = rng.usize(0, 3);
    o.lockouts = rng.chance(0.3);
    let links = gen_network(rng, &o);
    Case { links, only: None, load_seed: rng.next(), hash_seed: rng.next() }
}

#[derive(Clone, Copy, PartialEq, Eq, Debug)]
pub enum Expect {
    Reject,
    Accept,
    /// outside what the statement decides (e.g. infinite length): only "no panic" is required
    Either,
}

fn fin(x: f64) -> bool {
    x.is_finite()
}

/// Independent reference validator, written from the rules as the property states them.
/// Ok(true) consistent, Ok(false) inconsistent, Err = undecided by the rules (non-finite extents).
pub fn ref_consistent(links: &[Link]) -> Result<bool, ()> {
    let n = links.len();
    if n < 2 {
        return Ok(false);
    }
    let d = &links[0];
    let fake_set = |s: &SpeedSet| s.speed_limits.is_empty() && s.speed_params.is_empty() && !s.is_head_end;
    if d.idx_curr.idx() != 0 || d.idx_flip.idx() != 0 || d.idx_next.idx() != 0 || d.idx_next_alt.idx() != 0 || d.idx_prev.idx() != 0 || d.idx_prev_alt.idx() != 0
        || d.length.value != 0.0 || !d.elevs.is_empty() || !d.headings.is_empty() || !d.speed_sets.is_empty() || !d.cat_power_limits.is_empty()
        || d.speed_set.as_ref().map(|s| !fake_set(s)).unwrap_or(false)
    {
        return Ok(false);
    }
    let mut undecided = false;
    let in_range = |i: LinkIdx| i.idx() < n;
    for (k, l) in links.iter().enumerate().skip(1) {
        if l.idx_curr.idx() != k {
            return Ok(false);
        }
        let len = l.length.value;
        if len.is_nan() || len <= 0.0 {
            return Ok(false);
        }
        if len.is_infinite() {
            undecided = true;
        }
        for r in [l.idx_flip, l.idx_next, l.idx_next_alt, l.idx_prev, l.idx_prev_alt].iter().chain(l.link_idxs_lockout.iter()) {
            if !in_range(*r) {
                return Ok(false);
            }
        }
        // reverse-direction pairs point at each other
        if l.idx_flip == l.idx_curr {
            return Ok(false);
        }
        if l.idx_flip.idx() != 0 {
            if links[l.idx_flip.idx()].idx_flip != l.idx_curr {
                return Ok(false);
            }
            if [l.idx_next, l.idx_next_alt, l.idx_prev, l.idx_prev_alt].contains(&l.idx_flip) {
                return Ok(false);
            }
        }
        // alternates only with primaries
        if (l.idx_next_alt.idx() != 0 && l.idx_next.idx() == 0) || (l.idx_prev_alt.idx() != 0 && l.idx_prev.idx() == 0) {
            return Ok(false);
        }
        // every next / previous reference is reciprocated; no coincident switch points
        for nx in [l.idx_next, l.idx_next_alt] {
            if nx.idx() != 0 {
                let m = &links[nx.idx()];
                if !(m.idx_prev == l.idx_curr || m.idx_prev_alt == l.idx_curr) {
                    return Ok(false);
                }
                if l.idx_next_alt.idx() != 0 && m.idx_prev_alt.idx() != 0 {
                    return Ok(false);
                }
            }
        }
        for pv in [l.idx_prev, l.idx_prev_alt] {
            if pv.idx() != 0 {
                let m = &links[pv.idx()];
                if !(m.idx_next == l.idx_curr || m.idx_next_alt == l.idx_curr) {
                    return Ok(false);
                }
                if l.idx_prev_alt.idx() != 0 && m.idx_next_alt.idx() != 0 {
                    return Ok(false);
                }
            }
        }
        // elevation profile: sorted, spanning exactly the segment, finite values
        if l.elevs.len() < 2 {
            return Ok(false);
        }
        for e in &l.elevs {
            if e.offset.value.is_nan() || e.offset.value < 0.0 || !fin(e.elev.value) {
                return Ok(false);
            }
        }
        if !l.elevs.windows(2).all(|w| w[0].offset.value < w[1].offset.value) {
            return Ok(false);
        }
        if l.elevs[0].offset.value != 0.0 || l.elevs.last().unwrap().offset.value != len {
            return Ok(false);
        }
        // heading profile (optional)
        if !l.headings.is_empty() {
            if l.headings.len() < 2 {
                return Ok(false);
            }
            for h in &l.headings {
                let v = h.heading.value;
                if h.offset.value.is_nan() || h.offset.value < 0.0 || v.is_nan() || v < 0.0 || v >= 2.0 * std::f64::consts::PI {
                    return Ok(false);
                }
            }
            if !l.headings.windows(2).all(|w| w[0].offset.value < w[1].offset.value) {
                return Ok(false);
            }
            if l.headings[0].offset.value != 0.0 || l.headings.last().unwrap().offset.value != len {
                return Ok(false);
            }
        }
        // speed sections: exactly one way of giving them, well-formed, sorted, no duplicate (start, end);
        // they MAY overlap and nest (DESIGN C16: the repository's own valid() data overlaps)
        let sets: Vec<&SpeedSet> = if !l.speed_sets.is_empty() {
            if l.speed_set.is_some() {
                return Ok(false);
            }
            l.speed_sets.values().collect()
        } else if let Some(s) = &l.speed_set {
            vec![s]
        } else {
            return Ok(false);
        };
        for s in sets {
            if s.speed_limits.is_empty() {
                return Ok(false);
            }
            for sl in &s.speed_limits {
                let (a, b, v) = (sl.offset_start.value, sl.offset_end.value, sl.speed.value);
                if a.is_nan() || b.is_nan() || a < 0.0 || b < 0.0 || a > b || v.is_nan() {
                    return Ok(false);
                }
                if v.is_infinite() || b.is_infinite() {
                    undecided = true;
                }
            }
            for w in s.speed_limits.windows(2) {
                let ka = (w[0].offset_start.value, w[0].offset_end.value, w[0].speed.value);
                let kb = (w[1].offset_start.value, w[1].offset_end.value, w[1].speed.value);
                if ka.0 == kb.0 && ka.1 == kb.1 {
                    return Ok(false);
                }
                if ka.partial_cmp(&kb) == Some(std::cmp::Ordering::Greater) {
                    return Ok(false);
                }
            }
            for p in &s.speed_params {
                if p.limit_val.is_nan() || p.limit_val < 0.0 {
                    return Ok(false);
                }
                if p.limit_type == LimitType::AxleCount && p.limit_val.trunc() != p.limit_val {
                    return Ok(false);
                }
            }
            if s.speed_params.windows(2).any(|w| w[0] == w[1]) {
                return Ok(false);
            }
        }
        // catenary sections: well-formed, inside the link, pairwise non-overlapping (abutting is fine)
        for c in &l.cat_power_limits {
            let (a, b, p) = (c.offset_start.value, c.offset_end.value, c.power_limit.value);
            if a.is_nan() || b.is_nan() || p.is_nan() || a < 0.0 || b < 0.0 || p < 0.0 || a > b {
                return Ok(false);
            }
            if b > len {
                return Ok(false);
            }
            if p.is_infinite() {
                undecided = true;
            }
        }
        for w in l.cat_power_limits.windows(2) {
            if w[0].offset_end.value > w[1].offset_start.value {
                return Ok(false);
            }
        }
    }
    if undecided {
        Err(())
    } else {
        Ok(true)
    }
}

/// All single-fault mutation kinds and benign edits. `apply` returns None when the kind does not
/// apply at this link (e.g. no headings to break).
pub const KINDS: &[(&str, Expect)] = &[
    ("dummy.real_first_entry", Expect::Reject),
    ("dummy.removed", Expect::Reject),
    ("idx_curr.wrong_position", Expect::Reject),
    ("flip.self", Expect::Reject),
    ("flip.not_reciprocated", Expect::Reject),
    ("flip.equals_next", Expect::Reject),
    // a reference dropped on ONE side only: the partner still names this link
    ("flip.dropped_one_side", Expect::Reject),
    ("next.dropped_one_side", Expect::Reject),
    ("prev.dropped_one_side", Expect::Reject),
    ("next_alt.dropped_one_side", Expect::Reject),
    ("prev_alt.dropped_one_side", Expect::Reject),
    ("next.not_reciprocated", Expect::Reject),
    ("prev.not_reciprocated", Expect::Reject),
    ("next_alt.without_primary", Expect::Reject),
    ("prev_alt.without_primary", Expect::Reject),
    ("switch.coincident", Expect::Reject),
    ("ref.flip_out_of_range", Expect::Reject),
    ("ref.next_out_of_range", Expect::Reject),
    ("ref.next_alt_out_of_range", Expect::Reject),
    ("ref.prev_out_of_range", Expect::Reject),
    ("ref.prev_alt_out_of_range", Expect::Reject),
    ("ref.flip_huge", Expect::Reject),
    ("ref.lockout_out_of_range", Expect::Reject),
    ("length.nan", Expect::Reject),
    ("length.negative", Expect::Reject),
    ("length.zero", Expect::Reject),
    ("length.infinite", Expect::Either),
    ("elev.unsorted", Expect::Reject),
    ("elev.duplicate_offset", Expect::Reject),
    ("elev.first_not_zero", Expect::Reject),
    ("elev.short_of_link_end", Expect::Reject),
    ("elev.past_link_end", Expect::Reject),
    ("elev.single_point", Expect::Reject),
    ("elev.empty", Expect::Reject),
    ("elev.nan", Expect::Reject),
    ("elev.infinite", Expect::Reject),
    ("elev.offset_nan", Expect::Reject),
    ("heading.unsorted", Expect::Reject),
    ("heading.duplicate_offset", Expect::Reject),
    ("heading.first_not_zero", Expect::Reject),
    ("heading.short_of_link_end", Expect::Reject),
    ("heading.single_point", Expect::Reject),
    ("heading.full_turn", Expect::Reject),
    ("heading.negative", Expect::Reject),
    ("heading.nan", Expect::Reject),
    ("speed.none_at_all", Expect::Reject),
    ("speed.both_set_and_sets", Expect::Reject),
    ("speed.empty_limits", Expect::Reject),
    ("speed.start_after_end", Expect::Reject),
    ("speed.nan", Expect::Reject),
    ("speed.offset_nan", Expect::Reject),
    ("speed.negative_offset", Expect::Reject),
    ("speed.unsorted", Expect::Reject),
    ("speed.duplicate_pair", Expect::Reject),
    ("speed.infinite", Expect::Either),
    ("speed.param_negative", Expect::Reject),
    ("speed.param_axles_fractional", Expect::Reject),
    ("cat.start_after_end", Expect::Reject),
    ("cat.negative_power", Expect::Reject),
    ("cat.nan", Expect::Reject),
    ("cat.overlapping", Expect::Reject),
    ("cat.past_link_end", Expect::Reject),
    ("cat.negative_start", Expect::Reject),
    // benign edits: every rule still holds -> must be accepted
    ("ok.nested_speed_restriction", Expect::Accept),
    ("ok.abutting_speed_restrictions", Expect::Accept),
    ("ok.two_abutting_cat_sections", Expect::Accept),
    ("ok.two_separate_cat_sections", Expect::Accept),
    ("ok.equal_consecutive_elevations", Expect::Accept),
    ("ok.heading_wraps_through_two_pi", Expect::Accept),
    ("ok.no_headings", Expect::Accept),
    ("ok.osm_id", Expect::Accept),
    ("ok.flip_pair_removed", Expect::Accept),
    ("ok.next_and_alt_swapped", Expect::Accept),
    ("ok.prev_and_alt_swapped", Expect::Accept),
    ("ok.zero_length_speed_restriction", Expect::Accept),
    ("ok.speed_param_added", Expect::Accept),
];

fn first_set_mut(l: &mut Link) -> Option<&mut SpeedSet> {
    if let Some(s) = l.speed_set.as_mut() {
        return Some(s);
    }
    // deterministic choice inside the map (never iterate a randomised map for a decision)
    let mut keys: Vec<TrainType> = l.speed_sets.keys().copied().collect();
    keys.sort_by_key(|k| *k as u8);
    let k = *keys.first()?;
    l.speed_sets.get_mut(&k)
}

pub fn apply(kind: &str, k: usize, base: &[Link]) -> Option<Vec<Link>> {
    let mut v = base.to_vec();
    let n = v.len();
    let other = |k: usize| -> usize { if k + 1 < n { k + 1 } else { 1 } };
    let len = v[k].length;
    match kind {
        "dummy.real_first_entry" => {
            if k != 1 {
                return None;
            }
            v[0] = base[1].clone();
        }
        "dummy.removed" => {
            if k != 1 {
                return None;
            }
            v.remove(0);
        }
        "idx_curr.wrong_position" => v[k].idx_curr = LinkIdx::new(other(k) as u32),
        "flip.self" => v[k].idx_flip = v[k].idx_curr,
        "flip.not_reciprocated" => {
            let o = other(k);
            if base[o].idx_flip.idx() == k || n < 4 {
                return None;
            }
            v[k].idx_flip = LinkIdx::new(o as u32);
        }
        "flip.equals_next" => {
            if base[k].idx_next.idx() == 0 {
                return None;
            }
            v[k].idx_flip = base[k].idx_next;
        }
        "flip.dropped_one_side" => {
            if base[k].idx_flip.idx() == 0 {
                return None;
            }
            v[k].idx_flip = LinkIdx::new(0);
        }
        "next.dropped_one_side" => {
            // no alternate (otherwise the 'alternate without primary' rule would fire instead)
            if base[k].idx_next.idx() == 0 || base[k].idx_next_alt.idx() != 0 {
                return None;
            }
            v[k].idx_next = LinkIdx::new(0);
        }
        "prev.dropped_one_side" => {
            if base[k].idx_prev.idx() == 0 || base[k].idx_prev_alt.idx() != 0 {
                return None;
            }
            v[k].idx_prev = LinkIdx::new(0);
        }
        "next_alt.dropped_one_side" => {
            if base[k].idx_next_alt.idx() == 0 {
                return None;
            }
            v[k].idx_next_alt = LinkIdx::new(0);
        }
        "prev_alt.dropped_one_side" => {
            if base[k].idx_prev_alt.idx() == 0 {
                return None;
            }
            v[k].idx_prev_alt = LinkIdx::new(0);
        }
        "ok.flip_pair_removed" => {
            let f = base[k].idx_flip.idx();
            if f == 0 || f >= n {
                return None;
            }
            v[k].idx_flip = LinkIdx::new(0);
            v[f].idx_flip = LinkIdx::new(0);
        }
        "ok.next_and_alt_swapped" => {
            if base[k].idx_next_alt.idx() == 0 {
                return None;
            }
            v[k].idx_next = base[k].idx_next_alt;
            v[k].idx_next_alt = base[k].idx_next;
        }
        "ok.prev_and_alt_swapped" => {
            if base[k].idx_prev_alt.idx() == 0 {
                return None;
            }
            v[k].idx_prev = base[k].idx_prev_alt;
            v[k].idx_prev_alt = base[k].idx_prev;
        }
        "next.not_reciprocated" => {
            // point at a link that does not point back
            let cand = (1..n).find(|j| *j != k && base[*j].idx_prev.idx() != k && base[*j].idx_prev_alt.idx() != k && *j != base[k].idx_flip.idx())?;
            v[k].idx_next = LinkIdx::new(cand as u32);
        }
        "prev.not_reciprocated" => {
            let cand = (1..n).find(|j| *j != k && base[*j].idx_next.idx() != k && base[*j].idx_next_alt.idx() != k && *j != base[k].idx_flip.idx())?;
            v[k].idx_prev = LinkIdx::new(cand as u32);
        }
        "next_alt.without_primary" => {
            if base[k].idx_next_alt.idx() == 0 {
                return None;
            }
            v[k].idx_next = LinkIdx::new(0);
        }
        "prev_alt.without_primary" => {
            if base[k].idx_prev_alt.idx() == 0 {
                return None;
            }
            v[k].idx_prev = LinkIdx::new(0);
        }
        "switch.coincident" => {
            // k diverges (has next_alt); give its primary next a second predecessor
            if base[k].idx_next_alt.idx() == 0 {
                return None;
            }
            let nx = base[k].idx_next.idx();
            if base[nx].idx_prev_alt.idx() != 0 {
                return None;
            }
            let cand = (1..n).find(|j| *j != k && *j != nx && base[*j].idx_next.idx() == 0 && base[*j].idx_flip.idx() != nx)?;
            v[nx].idx_prev_alt = LinkIdx::new(cand as u32);
            v[cand].idx_next = LinkIdx::new(nx as u32);
        }
        "ref.flip_out_of_range" => v[k].idx_flip = LinkIdx::new(n as u32 + 3),
        "ref.next_out_of_range" => v[k].idx_next = LinkIdx::new(n as u32),
        "ref.next_alt_out_of_range" => {
            if base[k].idx_next.idx() == 0 {
                return None;
            }
            v[k].idx_next_alt = LinkIdx::new(n as u32 + 1);
        }
        "ref.prev_out_of_range" => v[k].idx_prev = LinkIdx::new(n as u32 + 7),
        "ref.prev_alt_out_of_range" => {
            if base[k].idx_prev.idx() == 0 {
                return None;
            }
            v[k].idx_prev_alt = LinkIdx::new(n as u32);
        }
        "ref.flip_huge" => v[k].idx_flip = LinkIdx::new(u32::MAX),
        "ref.lockout_out_of_range" => v[k].link_idxs_lockout.push(LinkIdx::new(n as u32 + 2)),
        "length.nan" => v[k].length = f64::NAN * uc::M,
        "length.negative" => v[k].length = -len,
        "length.zero" => v[k].length = 0.0 * uc::M,
        "length.infinite" => {
            v[k].length = f64::INFINITY * uc::M;
            v[k].elevs.last_mut().unwrap().offset = f64::INFINITY * uc::M;
            if let Some(h) = v[k].headings.last_mut() {
                h.offset = f64::INFINITY * uc::M;
            }
        }
        "elev.unsorted" => {
            if base[k].elevs.len() < 3 {
                return None;
            }
            let e = &mut v[k].elevs;
            let t = e[1].offset;
            e[1].offset = e[2].offset;
            e[2].offset = t;
            if e[2].offset == e[1].offset {
                return None;
            }
        }
        "elev.duplicate_offset" => {
            if base[k].elevs.len() < 3 {
                return None;
            }
            v[k].elevs[1].offset = v[k].elevs[0].offset;
        }
        "elev.first_not_zero" => v[k].elevs[0].offset = len * 0.001,
        "elev.short_of_link_end" => v[k].elevs.last_mut().unwrap().offset = len * 0.999,
        "elev.past_link_end" => v[k].elevs.last_mut().unwrap().offset = len * 1.5,
        "elev.single_point" => v[k].elevs.truncate(1),
        "elev.empty" => v[k].elevs.clear(),
        "elev.nan" => v[k].elevs[0].elev = f64::NAN * uc::M,
        "elev.infinite" => v[k].elevs.last_mut().unwrap().elev = f64::INFINITY * uc::M,
        "elev.offset_nan" => v[k].elevs[0].offset = f64::NAN * uc::M,
        "heading.unsorted" => {
            if base[k].headings.len() < 3 {
                return None;
            }
            let e = &mut v[k].headings;
            let t = e[1].offset;
            e[1].offset = e[2].offset;
            e[2].offset = t;
        }
        "heading.duplicate_offset" => {
            if base[k].headings.len() < 3 {
                return None;
            }
            v[k].headings[1].offset = v[k].headings[0].offset;
        }
        "heading.first_not_zero" => v[k].headings.first_mut()?.offset = len * 0.001,
        "heading.short_of_link_end" => v[k].headings.last_mut()?.offset = len * 0.999,
        "heading.single_point" => {
            if base[k].headings.is_empty() {
                return None;
            }
            v[k].headings.truncate(1);
        }
        "heading.full_turn" => v[k].headings.first_mut()?.heading = 2.0 * std::f64::consts::PI * uc::RAD,
        "heading.negative" => v[k].headings.first_mut()?.heading = -0.1 * uc::RAD,
        "heading.nan" => v[k].headings.first_mut()?.heading = f64::NAN * uc::RAD,
        "speed.none_at_all" => {
            v[k].speed_set = None;
            v[k].speed_sets.clear();
        }
        "speed.both_set_and_sets" => {
            if v[k].speed_set.is_some() {
                let s = v[k].speed_set.clone().unwrap();
                v[k].speed_sets.insert(TrainType::Freight, s);
            } else {
                let s = first_set_mut(&mut v[k])?.clone();
                v[k].speed_set = Some(s);
            }
        }
        "speed.empty_limits" => first_set_mut(&mut v[k])?.speed_limits.clear(),
        "speed.start_after_end" => {
            let s = first_set_mut(&mut v[k])?;
            let l = s.speed_limits.last_mut()?;
            l.offset_start = l.offset_end + 1.0 * uc::M;
        }
        "speed.nan" => first_set_mut(&mut v[k])?.speed_limits.first_mut()?.speed = f64::NAN * uc::MPS,
        "speed.offset_nan" => first_set_mut(&mut v[k])?.speed_limits.first_mut()?.offset_end = f64::NAN * uc::M,
        "speed.negative_offset" => {
            let s = first_set_mut(&mut v[k])?;
            s.speed_limits.first_mut()?.offset_start = -1.0 * uc::M;
        }
        "speed.unsorted" => {
            let s = first_set_mut(&mut v[k])?;
            if s.speed_limits.len() < 2 {
                return None;
            }
            s.speed_limits.reverse();
            if s.speed_limits.windows(2).all(|w| w[0].partial_cmp(&w[1]) != Some(std::cmp::Ordering::Greater)) {
                return None;
            }
        }
        "speed.duplicate_pair" => {
            let s = first_set_mut(&mut v[k])?;
            let mut d = *s.speed_limits.first()?;
            d.speed = d.speed + 1.0 * uc::MPS;
            s.speed_limits.insert(1, d);
        }
        "speed.infinite" => first_set_mut(&mut v[k])?.speed_limits.first_mut()?.speed = f64::INFINITY * uc::MPS,
        "speed.param_negative" => first_set_mut(&mut v[k])?.speed_params.push(SpeedParam { limit_val: -5.0, limit_type: LimitType::MassTotal, compare_type: CompareType::TpGreaterThanRp }),
        "speed.param_axles_fractional" => first_set_mut(&mut v[k])?.speed_params.push(SpeedParam { limit_val: 10.5, limit_type: LimitType::AxleCount, compare_type: CompareType::TpGreaterThanRp }),
        "cat.start_after_end" => {
            let c = v[k].cat_power_limits.first_mut()?;
            c.offset_start = c.offset_end + 1.0 * uc::M;
        }
        "cat.negative_power" => v[k].cat_power_limits.first_mut()?.power_limit = -1.0 * uc::W,
        "cat.nan" => v[k].cat_power_limits.first_mut()?.power_limit = f64::NAN * uc::W,
        "cat.overlapping" => {
            v[k].cat_power_limits = vec![
                CatPowerLimit { offset_start: 0.0 * uc::M, offset_end: len * 0.6, power_limit: 1e6 * uc::W, district_id: None },
                CatPowerLimit { offset_start: len * 0.4, offset_end: len, power_limit: 2e6 * uc::W, district_id: None },
            ];
        }
        "cat.past_link_end" => {
            v[k].cat_power_limits = vec![CatPowerLimit { offset_start: 0.0 * uc::M, offset_end: len * 1.25, power_limit: 1e6 * uc::W, district_id: None }];
        }
        "cat.negative_start" => {
            v[k].cat_power_limits = vec![CatPowerLimit { offset_start: -1.0 * uc::M, offset_end: len, power_limit: 1e6 * uc::W, district_id: None }];
        }
        "ok.nested_speed_restriction" => {
            let s = first_set_mut(&mut v[k])?;
            s.speed_limits.push(SpeedLimit { offset_start: len * 0.25, offset_end: len * 0.5, speed: 3.0 * uc::MPS });
            s.speed_limits.sort_by(|a, b| a.partial_cmp(b).unwrap());
            if s.speed_limits.windows(2).any(|w| w[0].offset_start == w[1].offset_start && w[0].offset_end == w[1].offset_end) {
                return None;
            }
        }
        "ok.abutting_speed_restrictions" => {
            let s = first_set_mut(&mut v[k])?;
            s.speed_limits = vec![
                SpeedLimit { offset_start: 0.0 * uc::M, offset_end: len * 0.5, speed: 9.0 * uc::MPS },
                SpeedLimit { offset_start: len * 0.5, offset_end: len, speed: 11.0 * uc::MPS },
            ];
        }
        "ok.two_abutting_cat_sections" => {
            v[k].cat_power_limits = vec![
                CatPowerLimit { offset_start: 0.0 * uc::M, offset_end: len * 0.5, power_limit: 1e6 * uc::W, district_id: None },
                CatPowerLimit { offset_start: len * 0.5, offset_end: len, power_limit: 2e6 * uc::W, district_id: Some("d".into()) },
            ];
        }
        "ok.two_separate_cat_sections" => {
            v[k].cat_power_limits = vec![
                CatPowerLimit { offset_start: 0.0 * uc::M, offset_end: len * 0.25, power_limit: 1e6 * uc::W, district_id: None },
                CatPowerLimit { offset_start: len * 0.5, offset_end: len * 0.75, power_limit: 2e6 * uc::W, district_id: None },
            ];
        }
        "ok.equal_consecutive_elevations" => {
            let e = &mut v[k].elevs;
            let x = e[0].elev;
            e[1].elev = x;
        }
        "ok.heading_wraps_through_two_pi" => {
            v[k].headings = vec![
                Heading { offset: 0.0 * uc::M, heading: 6.2 * uc::RAD, lat: None, lon: None },
                Heading { offset: len * 0.5, heading: 0.05 * uc::RAD, lat: None, lon: None },
                Heading { offset: len, heading: 6.25 * uc::RAD, lat: None, lon: None },
            ];
        }
        "ok.no_headings" => {
            if base[k].headings.is_empty() {
                return None;
            }
            v[k].headings.clear();
        }
        "ok.osm_id" => v[k].osm_id = Some("way/12345".into()),
        "ok.zero_length_speed_restriction" => {
            let s = first_set_mut(&mut v[k])?;
            s.speed_limits.push(SpeedLimit { offset_start: len, offset_end: len, speed: 5.0 * uc::MPS });
            s.speed_limits.sort_by(|a, b| a.partial_cmp(b).unwrap());
            if s.speed_limits.windows(2).any(|w| w[0].offset_start == w[1].offset_start && w[0].offset_end == w[1].offset_end) {
                return None;
            }
        }
        "ok.speed_param_added" => first_set_mut(&mut v[k])?.speed_params.push(SpeedParam { limit_val: 123456.0, limit_type: LimitType::MassTotal, compare_type: CompareType::TpLessThanRp }),
        _ => return None,
    }
    Some(v)
}

/// the legacy file layout, written by hand from the same data (list of speed sets carrying their train type)
#[derive(Serialize)]
struct OldSet {
    speed_limits: Vec<SpeedLimit>,
    speed_params: Vec<SpeedParam>,
    train_type: TrainType,
    is_head_end: bool,
}
#[derive(Serialize)]
struct OldLink {
    elevs: Vec<Elev>,
    headings: Vec<Heading>,
    speed_sets: Vec<OldSet>,
    cat_power_limits: Vec<CatPowerLimit>,
    length: altrios_core::si::Length,
    idx_next: LinkIdx,
    idx_next_alt: LinkIdx,
    idx_prev: LinkIdx,
    idx_prev_alt: LinkIdx,
    idx_curr: LinkIdx,
    idx_flip: LinkIdx,
    #[serde(skip_serializing_if = "Option::is_none")]
    osm_id: Option<String>,
    link_idxs_lockout: Vec<LinkIdx>,
}

fn to_old(links: &[Link]) -> Option<Vec<OldLink>> {
    // the legacy layout has only the list-of-sets form
    let mut out = vec![];
    for l in links {
        if l.speed_set.is_some() {
            return None;
        }
        let mut keys: Vec<TrainType> = l.speed_sets.keys().copied().collect();
        keys.sort_by_key(|k| *k as u8);
        out.push(OldLink {
            elevs: l.elevs.clone(),
            headings: l.headings.clone(),
            speed_sets: keys.iter().map(|k| { let s = &l.speed_sets[k]; OldSet { speed_limits: s.speed_limits.clone(), speed_params: s.speed_params.clone(), train_type: *k, is_head_end: s.is_head_end } }).collect(),
            cat_power_limits: l.cat_power_limits.clone(),
            length: l.length,
            idx_next: l.idx_next,
            idx_next_alt: l.idx_next_alt,
            idx_prev: l.idx_prev,
            idx_prev_alt: l.idx_prev_alt,
            idx_curr: l.idx_curr,
            idx_flip: l.idx_flip,
            osm_id: l.osm_id.clone(),
            link_idxs_lockout: l.link_idxs_lockout.clone(),
        });
    }
    Some(out)
}

fn verdict_str(r: &Result<bool, ()>) -> &'static str {
    match r {
        Ok(true) => "consistent",
        Ok(false) => "inconsistent",
        Err(()) => "undecided",
    }
}

/// one mutated (or base) network through validate and, sampled, the load paths
fn judge(ctx: &mut Ctx, kind: &str, k: usize, links: Vec<Link>, expect: Expect, rng: &mut Rng, full_load: bool) {
    let reference = ref_consistent(&links);
    // the reference must agree with the mutation's label, otherwise the harness is wrong (not the code)
    let label_ok = match (expect, &reference) {
        (Expect::Reject, Ok(false)) | (Expect::Accept, Ok(true)) | (Expect::Either, _) => true,
        _ => false,
    };
    if !label_ok {
        ctx.hit_dyn(format!("harness.reference_disagrees_with_label: {kind} -> {}", verdict_str(&reference)));
        return;
    }
    ctx.hit("stat.networks_judged");
    ctx.layer = "load/validate";
    let net = Network(links);
    // a panic inside validation is a violation of its own and must not end the enumeration
    let got = match std::panic::catch_unwind(std::panic::AssertUnwindSafe(|| net.validate())) {
        Ok(r) => r,
        Err(_) => {
            let (loc, msg) = crate::take_last_panic();
            let loc_short = loc.rsplit("altrios-core/").next().unwrap_or(&loc).to_string();
            let mut sg = sig1("kind", kind);
            sg.insert("location".into(), loc_short.clone().into());
            ctx.violate_sig("C16", "panic", &loc_short, format!("{kind} at link {k}: validate() panicked at {loc_short}: {}", msg.lines().next().unwrap_or("")), sg);
            ctx.hit("fault.net.mutate.rule_broken");
            return;
        }
    };
    let accepted = got.is_ok();
    let mut sg = sig1("kind", kind);
    sg.insert("path".into(), "validate".into());
    match reference {
        Ok(true) if !accepted => {
            let msg = got.err().map(|e| format!("{e:?}")).unwrap_or_default();
            ctx.violate_sig("C16", "validator", "consistent network is accepted", format!("{kind} at link {k}: rejected: {}", msg.lines().filter(|l| !l.trim().is_empty() && !l.contains("Combo error")).take(2).collect::<Vec<_>>().join(" / ").chars().take(300).collect::<String>()), sg.clone());
        }
        Ok(false) if accepted => {
            ctx.violate_sig("C16", "validator", "inconsistent network is rejected", format!("{kind} at link {k}: accepted by validate()"), sg.clone());
        }
        _ => {}
    }
    match expect {
        Expect::Reject => ctx.hit("fault.net.mutate.rule_broken"),
        Expect::Accept => ctx.hit("fault.net.mutate.benign_edit"),
        Expect::Either => ctx.hit("fault.net.mutate.non_finite_extent"),
    }
    if !full_load {
        return;
    }
    // ---- load paths: same verdict as validate on the same data ----
    let Ok(want_ok) = reference else { return };
    let has_nonfinite = kind.contains("nan") || kind.contains("infinite");
    for fmt in [Fmt::Yaml, Fmt::Json] {
        if fmt == Fmt::Json && has_nonfinite {
            continue; // JSON cannot carry the value at all
        }
        let bytes: Vec<u8> = match fmt {
            Fmt::Yaml => match serde_yaml::to_string(&net) { Ok(s) => s.into_bytes(), Err(_) => continue },
            _ => match serde_json::to_string(&net) { Ok(s) => s.into_bytes(), Err(_) => continue },
        };
        let text = String::from_utf8_lossy(&bytes).to_string();
        let r = match fmt { Fmt::Yaml => Network::from_yaml(&text), _ => Network::from_json(&text) };
        sg.insert("path".into(), format!("from_{}", fmt.ext()).into());
        if r.is_ok() != want_ok {
            ctx.violate_sig("C16", "validator", if want_ok { "consistent network is accepted" } else { "inconsistent network is rejected" }, format!("{kind} at link {k}: from_{} -> {}", fmt.ext(), if r.is_ok() { "Ok".to_string() } else { format!("Err({})", r.as_ref().err().map(|e| e.to_string().lines().next().unwrap_or("").chars().take(120).collect::<String>()).unwrap_or_default()) }), sg.clone());
        }
        if let Ok(n2) = &r {
            if want_ok && *n2 != net && fmt == Fmt::Yaml {
                ctx.violate_sig("C16", "validator", "loaded network equals the data", format!("{kind}: from_yaml returned a different network"), sg.clone());
            }
        }
        // faulty reader: legal behaviours of Read change nothing
        let mut rd = SimReader::new(&bytes, rng.next());
        let r2 = Network::from_reader(&mut rd, fmt.ext());
        ctx.add("fault.read.short", rd.n_short);
        ctx.add("fault.read.eintr", rd.n_eintr);
        if r2.is_ok() != r.is_ok() || (r.is_ok() && r2.as_ref().ok() != r.as_ref().ok()) {
            ctx.violate_sig("C16", "load", "short reads / EINTR change nothing", format!("{kind}: from_reader({}) differs from the string load", fmt.ext()), sg.clone());
        }
        // hard error at a seeded byte: must be Err
        let mut rd = SimReader::new(&bytes, rng.next());
        rd.eio_at = Some(rng.below(bytes.len() as u64) as usize);
        let r3 = Network::from_reader(&mut rd, fmt.ext());
        ctx.add("fault.read.eio", rd.n_eio.min(1));
        if r3.is_ok() {
            ctx.violate_sig("C16", "load", "I/O error during load is reported", format!("{kind}: from_reader returned Ok although the reader failed at byte {:?}", rd.eio_at), sg.clone());
        }
        // early EOF: never a panic (the result is whatever the truncated text says)
        let mut rd = SimReader::new(&bytes, rng.next());
        rd.eof_at = Some(rng.below(bytes.len() as u64) as usize);
        let _ = Network::from_reader(&mut rd, fmt.ext());
        ctx.add("fault.read.eof", rd.n_eof.min(1));
    }
    // real files: current layout and, where expressible, the legacy layout
    let dir = crate::ser::scratch_dir();
    // one name per process for every network this worker writes (a file rewritten in place, run after run): a loader
    // that remembers the path instead of reading the file returns an earlier network
    let _ = rng.next();
    let tag = "latest".to_string();
    if !has_nonfinite {
        let p = dir.join(format!("net-{tag}.yaml"));
        if std::fs::write(&p, serde_yaml::to_string(&net).unwrap_or_default()).is_ok() {
            let r = Network::from_file(&p);
            sg.insert("path".into(), "from_file".into());
            if r.is_ok() != want_ok {
                ctx.violate_sig("C16", "validator", if want_ok { "consistent network is accepted" } else { "inconsistent network is rejected" }, format!("{kind} at link {k}: from_file(current layout) -> {}", if r.is_ok() { "Ok" } else { "Err" }), sg.clone());
            }
            let _ = std::fs::remove_file(&p);
            ctx.hit("stat.file_loads");
        }
    }
    if let Some(old) = to_old(&net.0) {
        let p = dir.join(format!("old-{tag}.yaml"));
        if let Ok(text) = serde_yaml::to_string(&old) {
            if std::fs::write(&p, text).is_ok() {
                let r = Network::from_file(&p);
                sg.insert("path".into(), "from_file(legacy)".into());
                ctx.hit("stat.legacy_file_loads");
                if r.is_ok() != want_ok {
                    ctx.violate_sig("C16", "validator", if want_ok { "consistent network is accepted" } else { "inconsistent network is rejected" }, format!("{kind} at link {k}: from_file(legacy layout) -> {}", if r.is_ok() { "Ok".to_string() } else { format!("Err({})", r.as_ref().err().map(|e| e.to_string().chars().take(160).collect::<String>()).unwrap_or_default()) }), sg.clone());
                } else if let Ok(n2) = r {
                    if n2 != net {
                        ctx.violate_sig("C16", "legacy", "legacy layout yields the same network", format!("{kind}: networks differ"), sg.clone());
                    }
                }
                let _ = std::fs::remove_file(&p);
            }
        }
    }
}

pub fn execute(case: &Case, ctx: &mut Ctx) {
    let base = &case.links;
    let n = base.len();
    ctx.class.push(format!("val:links{}:bytype{}:net{:x}", n, base[1].speed_set.is_none(), crate::rng::fnv(&bincode::serialize(&base[1..]).unwrap_or_default())));
    let mut rng = Rng::new(case.load_seed);
    ctx.event = 0;
    if case.only.is_none() {
        judge(ctx, "base", 0, base.clone(), Expect::Accept, &mut rng, true);
    }
    let mut ev = 1;
    for (kind, expect) in KINDS {
        for k in 1..n {
            if let Some((ok, ol)) = &case.only {
                if ok != kind || *ol != k {
                    continue;
                }
            }
            ctx.event = ev;
            ev += 1;
            let Some(m) = apply(kind, k, base) else { continue };
            ctx.trace.s(kind);
            // the load paths are exercised on a seeded sample (every kind is reached over a batch)
            let full = case.only.is_some() || rng.chance(0.06);
            let before = ctx.viol.len();
            if std::panic::catch_unwind(std::panic::AssertUnwindSafe(|| judge(ctx, kind, k, m, *expect, &mut rng, full))).is_err() {
                let (loc, msg) = crate::take_last_panic();
                let loc_short = loc.rsplit("altrios-core/").next().unwrap_or(&loc).to_string();
                let mut sg = sig1("kind", *kind);
                sg.insert("location".into(), loc_short.clone().into());
                ctx.violate_sig("C16", "panic", &loc_short, format!("{kind} at link {k}: a load path panicked at {loc_short}: {}", msg.lines().next().unwrap_or("")), sg);
            }
            ctx.trace.u((ctx.viol.len() - before) as u64);
        }
    }
    ctx.nontrivial = n >= 3;
}

pub fn shrink(case: &Case, v: &Violation) -> Vec<Case> {
    // reduce to the single mutation named by the violation
    let mut out = vec![];
    if case.only.is_none() {
        if let Some((kind, rest)) = v.detail.split_once(" at link ") {
            if let Some(k) = rest.split(|c: char| !c.is_ascii_digit()).next().and_then(|s| s.parse::<usize>().ok()) {
                let mut c = case.clone();
                c.only = Some((kind.to_string(), k));
                out.push(c);
            }
        }
    }
    out
}
