//! World `pt` (powertrain): real `Locomotive` / `Consist` objects driven tick by tick by the simulator,
//! which owns the clock (dt sequence), chooses each demand from the limits published in the same
//! tick (closed-loop adversarial client), injects crash/restore, rejected ticks and save-interval
//! changes, and evaluates the reference monitors of C01, C08, C09, C10, C19 after every event.

use crate::core::*;
use crate::rng::Rng;
use crate::ser::{self, Chan, Fmt};
use altrios_core::consist::locomotive::locomotive_model::PowertrainType;
use altrios_core::consist::locomotive::powertrain::electric_drivetrain::ElectricDrivetrain;
use altrios_core::consist::locomotive::powertrain::fuel_converter::FuelConverter;
use altrios_core::consist::locomotive::powertrain::generator::Generator;
use altrios_core::consist::locomotive::powertrain::reversible_energy_storage::ReversibleEnergyStorage;
use altrios_core::consist::locomotive::{BatteryElectricLoco, ConventionalLoco};
use altrios_core::consist::{LocoTrait, PowerDistributionControlType};
use altrios_core::prelude::*;
use altrios_core::uc;
use serde::{Deserialize, Serialize};

// ------------------------------------------------------------------------------------------------
// Scenario description (what a replay file holds)
// ------------------------------------------------------------------------------------------------

#[derive(Serialize, Deserialize, Clone, Debug, Default, PartialEq)]
pub struct MapSpec {
    /// empty = the shipped default map of the component
    pub frac: Vec<f64>,
    pub eta: Vec<f64>,
}

#[derive(Serialize, Deserialize, Clone, Debug, PartialEq)]
pub struct FcSpec {
    pub p_max: f64,
    pub p_init: f64,
    pub lag: f64,
    pub idle: f64,
    pub map: MapSpec,
}
#[derive(Serialize, Deserialize, Clone, Debug, PartialEq)]
pub struct EmSpec {
    pub p_max: f64,
    pub map: MapSpec,
}
#[derive(Serialize, Deserialize, Clone, Debug, PartialEq)]
pub struct ResSpec {
    pub p_max: f64,
    pub cap_j: f64,
    pub min_soc: f64,
    pub max_soc: f64,
    pub lo_ramp: Option<f64>,
    pub hi_ramp: Option<f64>,
    pub soc0: f64,
    pub temp: f64,
    /// None = shipped grid and values scaled by `scale`
    pub grid: Option<(Vec<Vec<f64>>, Vec<Vec<Vec<f64>>>)>,
    pub scale: f64,
}
#[derive(Serialize, Deserialize, Clone, Debug, PartialEq)]
pub enum KindSpec {
    Conv { fc: FcSpec, gen: EmSpec, edrv: EmSpec },
    Bel { res: ResSpec, edrv: EmSpec },
    /// the shipped default hybrid unit; only generated for C19 (alignment) - the energy / limit / split
    /// properties are stated for conventional and battery-electric units
    Hybrid,
}
#[derive(Serialize, Deserialize, Clone, Debug, PartialEq)]
pub struct LocoSpec {
    pub kind: KindSpec,
    pub aux_offset: f64,
    pub aux_coeff: f64,
}

#[derive(Serialize, Deserialize, Clone, Copy, Debug, PartialEq)]
pub enum Demand {
    /// x times the tractive limit just published
    MaxTimes(f64),
    /// -x times the dynamic-braking capability (sum of drivetrain ratings)
    BrakeTimes(f64),
    /// -x times the regeneration limit just published
    RegenTimes(f64),
    Zero,
    Abs(f64),
    /// -x times the auxiliary load just published (light regeneration around the aux level)
    AuxTimes(f64),
}

#[derive(Serialize, Deserialize, Clone, Debug, PartialEq)]
pub enum Op {
    Tick { dt: f64, demand: Demand, engine_on: Option<bool> },
    SetSaveInterval(Option<usize>),
    Crash { fmt: Fmt, chan: Chan },
}

#[derive(Serialize, Deserialize, Clone, Debug, PartialEq)]
pub struct Case {
    pub locos: Vec<LocoSpec>,
    pub as_consist: bool,
    /// "RESGreedy" | "Proportional"
    pub pdct: String,
    pub save_interval: Option<usize>,
    pub ops: Vec<Op>,
    pub hash_seed: u64,
    /// also run the shipped `walk()` over the accepted demands and compare (bit-exact)
    pub shipped_walk: bool,
    /// run a fault-free twin and require identical trajectories (resume equivalence, C17)
    #[serde(default)]
    pub twin: bool,
    /// consists: before every top-level interval change the middle unit is given an interval of its own; the
    /// change that follows must still reach every nested object (also when it re-sets the value in force)
    #[serde(default)]
    pub nested_drift: bool,
    /// consists: constructed around the LAST unit alone, the full set of units supplied afterwards through
    /// `Consist::set_loco_vec` (everything the constructor derives from the units must follow)
    #[serde(default)]
    pub late_units: bool,
}

// ------------------------------------------------------------------------------------------------
// Builders: specs -> real objects (the way users build them: defaults + public fields)
// ------------------------------------------------------------------------------------------------

pub fn build_fc(s: &FcSpec) -> FuelConverter {
    let mut fc = FuelConverter::default();
    fc.pwr_out_max = s.p_max * uc::W;
    fc.pwr_out_max_init = s.p_init * uc::W;
    fc.pwr_ramp_lag = s.lag * uc::S;
    fc.pwr_idle_fuel = s.idle * uc::W;
    if !s.map.frac.is_empty() {
        fc.pwr_out_frac_interp = s.map.frac.clone();
        fc.eta_interp = s.map.eta.clone();
    }
    fc
}
pub fn build_gen(s: &EmSpec) -> Generator {
    let mut g = Generator::default();
    g.pwr_out_max = s.p_max * uc::W;
    if !s.map.frac.is_empty() {
        g.pwr_out_frac_interp = s.map.frac.clone();
        g.eta_interp = s.map.eta.clone();
    }
    g.pwr_in_frac_interp = vec![];
    g
}
pub fn build_edrv(s: &EmSpec) -> ElectricDrivetrain {
    let mut e = ElectricDrivetrain::default();
    e.pwr_out_max = s.p_max * uc::W;
    if !s.map.frac.is_empty() {
        e.pwr_out_frac_interp = s.map.frac.clone();
        e.eta_interp = s.map.eta.clone();
    }
    e.pwr_in_frac_interp = vec![];
    e
}
pub fn build_res(s: &ResSpec) -> ReversibleEnergyStorage {
    let mut r = ReversibleEnergyStorage::default();
    r.pwr_out_max = s.p_max * uc::W;
    r.energy_capacity = s.cap_j * uc::J;
    r.min_soc = s.min_soc * uc::R;
    r.max_soc = s.max_soc * uc::R;
    r.soc_lo_ramp_start = s.lo_ramp.map(|x| x * uc::R);
    r.soc_hi_ramp_start = s.hi_ramp.map(|x| x * uc::R);
    r.state.soc = s.soc0 * uc::R;
    r.state.temperature_celsius = s.temp;
    match &s.grid {
        Some((g, v)) => {
            r.eta_interp_grid = [g[0].clone(), g[1].clone(), g[2].clone()];
            r.eta_interp_values = v.clone();
        }
        None => {
            if s.scale != 1.0 {
                for a in r.eta_interp_values.iter_mut() {
                    for b in a.iter_mut() {
                        for c in b.iter_mut() {
                            *c = (*c * s.scale).min(1.0);
                        }
                    }
                }
            }
        }
    }
    r
}
pub fn build_loco(s: &LocoSpec, save_interval: Option<usize>) -> Locomotive {
    let mut l = match &s.kind {
        KindSpec::Conv { fc, gen, edrv } => {
            let mut l = Locomotive::default();
            l.loco_type = PowertrainType::ConventionalLoco(ConventionalLoco::new(build_fc(fc), build_gen(gen), build_edrv(edrv)));
            l
        }
        KindSpec::Bel { res, edrv } => {
            let mut l = Locomotive::default_battery_electric_loco();
            l.loco_type = PowertrainType::BatteryElectricLoco(BatteryElectricLoco::new(build_res(res), build_edrv(edrv)));
            l
        }
        KindSpec::Hybrid => {
            let mut l = Locomotive::default_hybrid_electric_loco();
            l.set_save_interval(save_interval);
            return l;
        }
    };
    l.pwr_aux_offset = s.aux_offset * uc::W;
    l.pwr_aux_traction_coeff = s.aux_coeff * uc::R;
    l.set_save_interval(save_interval);
    l
}
pub fn build_consist(case: &Case) -> Consist {
    let locos: Vec<Locomotive> = case.locos.iter().map(|s| build_loco(s, case.save_interval)).collect();
    let pdct = if case.pdct == "Proportional" {
        PowerDistributionControlType::Proportional(altrios_core::consist::Proportional)
    } else {
        PowerDistributionControlType::RESGreedy(altrios_core::consist::RESGreedy)
    };
    if case.late_units && locos.len() >= 2 {
        let mut c = Consist::new(vec![locos[locos.len() - 1].clone()], case.save_interval, pdct);
        c.set_loco_vec(locos);
        c
    } else {
        Consist::new(locos, case.save_interval, pdct)
    }
}

// ------------------------------------------------------------------------------------------------
// Generator (swarm style: sizes, mixes, demand profile and enabled fault kinds vary per run)
// ------------------------------------------------------------------------------------------------

fn r3(x: f64) -> f64 {
    Rng::round_sig(x, 4)
}

pub fn gen_map(rng: &mut Rng, invertible: bool) -> MapSpec {
    if rng.chance(0.25) {
        return MapSpec::default(); // shipped map
    }
    for _ in 0..20 {
        let n = rng.usize(2, 12);
        let mut frac: Vec<f64> = vec![if rng.chance(0.6) { 0.0 } else { r3(rng.range(0.001, 0.05)) }];
        for _ in 1..n - 1 {
            frac.push(r3(rng.range(0.02, 0.98)));
        }
        frac.push(1.0);
        frac.sort_by(|a, b| a.partial_cmp(b).unwrap());
        frac.dedup();
        if frac.len() < 2 {
            continue;
        }
        let n = frac.len();
        let shape = rng.below(5);
        let base = rng.range(0.25, 0.99);
        let eta: Vec<f64> = (0..n)
            .map(|i| {
                let x = frac[i];
                let v = match shape {
                    0 => base,                                                 // flat
                    1 => base * (0.55 + 0.45 * (1.0 - (x - 0.6) * (x - 0.6) * 2.0).max(0.0)), // peaked
                    2 => base * (0.5 + 0.5 * x),                               // monotone up
                    3 => base * (1.0 - 0.3 * ((x - 0.4).abs() < 0.15) as u8 as f64), // dip
                    _ => rng.range(0.2, 1.0),                                  // ragged
                };
                r3(v.clamp(0.02, 1.0))
            })
            .collect();
        let mut eta = eta;
        if rng.chance(0.1) {
            let k = rng.usize(0, n - 1);
            eta[k] = 1.0; // map extreme
        }
        if invertible {
            let inp: Vec<f64> = frac.iter().zip(&eta).map(|(x, y)| x / y).collect();
            if !inp.windows(2).all(|w| w[0] < w[1]) {
                continue;
            }
        }
        return MapSpec { frac, eta };
    }
    MapSpec { frac: vec![0.0, 1.0], eta: vec![0.9, 0.85] }
}

pub fn gen_loco(rng: &mut Rng, bel: bool) -> LocoSpec {
    let rating = r3(rng.lrange(0.2e6, 8e6));
    let edrv = EmSpec { p_max: r3(rating * rng.range(0.6, 1.6)), map: gen_map(rng, true) };
    let kind = if bel {
        let min_soc = r3(rng.range(0.0, 0.3));
        let max_soc = r3(rng.range(0.6, 1.0));
        let lo_w = r3(rng.range(0.02, 0.15));
        let hi_w = r3(rng.range(0.02, 0.15));
        let soc0 = match rng.below(6) {
            0 => min_soc,
            1 => max_soc,
            2 => min_soc + lo_w * rng.f(),
            3 => max_soc - hi_w * rng.f(),
            _ => rng.range(min_soc, max_soc),
        };
        let grid = if rng.chance(0.35) {
            let dims = if rng.chance(0.5) { (2usize, 2usize, 2usize) } else { (3, 4, 5) };
            let axis = |n: usize, lo: f64, hi: f64, rng: &mut Rng| -> Vec<f64> {
                let mut v: Vec<f64> = (0..n).map(|i| r3(lo + (hi - lo) * (i as f64 + 0.8 * rng.f()) / n as f64)).collect();
                v.sort_by(|a, b| a.partial_cmp(b).unwrap());
                v.dedup();
                v
            };
            let g0 = axis(dims.0, 10.0, 60.0, rng);
            let g1 = axis(dims.1, 0.0, 1.0, rng);
            let g2 = axis(dims.2, -4.0, 4.0, rng);
            let vals: Vec<Vec<Vec<f64>>> = (0..g0.len())
                .map(|_| (0..g1.len()).map(|_| (0..g2.len()).map(|_| r3(rng.range(0.6, 1.0))).collect()).collect())
                .collect();
            Some((vec![g0, g1, g2], vals))
        } else {
            None
        };
        KindSpec::Bel {
            res: ResSpec {
                p_max: r3(rating * rng.range(0.7, 1.5)),
                cap_j: r3(rng.lrange(0.3e9, 20e9)),
                min_soc,
                max_soc,
                lo_ramp: if rng.chance(0.3) { None } else { Some(r3(min_soc + lo_w)) },
                hi_ramp: if rng.chance(0.3) { None } else { Some(r3(max_soc - hi_w)) },
                soc0: r3(soc0).clamp(min_soc, max_soc),
                temp: r3(match rng.below(5) {
                    0 => rng.range(-10.0, 20.0),
                    1 => rng.range(56.0, 80.0),
                    _ => rng.range(23.0, 55.0),
                }),
                grid,
                scale: if rng.chance(0.5) { 1.0 } else { r3(rng.range(0.8, 1.05)) },
            },
            edrv,
        }
    } else {
        KindSpec::Conv {
            fc: FcSpec {
                p_max: rating,
                p_init: if rng.chance(0.5) { 0.0 } else { r3(rating * rng.range(0.02, 0.5)) },
                lag: r3(rng.lrange(1.0, 60.0)),
                idle: if rng.chance(0.2) { 0.0 } else { r3(rating * rng.range(0.0, 0.05)) },
                map: gen_map(rng, false),
            },
            gen: EmSpec { p_max: r3(rating * rng.range(0.6, 1.6)), map: gen_map(rng, true) },
            edrv,
        }
    };
    LocoSpec {
        kind,
        // (one unit in twelve carries a head-end-power sized hotel load: more than a cold engine can supply on top of traction)
        aux_offset: if rng.chance(0.15) { 0.0 } else if rng.chance(0.09) { r3(rating * rng.range(0.06, 0.2)) } else { r3(rating * rng.range(0.0005, 0.02)) },
        aux_coeff: if rng.chance(0.2) { 0.0 } else { r3(rng.range(0.0, 0.002)) },
    }
}

/// largest step for which linear derating can keep SOC inside its window (DESIGN C09 bound)
pub fn dt_max(locos: &[LocoSpec]) -> f64 {
    let mut m: f64 = 30.0;
    for l in locos {
        if let KindSpec::Bel { res, .. } = &l.kind {
            let lo_w = res.lo_ramp.map(|x| x - res.min_soc).unwrap_or(0.05);
            let hi_w = res.hi_ramp.map(|x| res.max_soc - x).unwrap_or(0.05);
            let w = lo_w.min(hi_w).max(1e-4);
            let eta_min = match &res.grid {
                Some((_, v)) => v.iter().flatten().flatten().cloned().fold(1.0, f64::min),
                None => 0.6 * res.scale.min(1.0),
            };
            m = m.min(0.5 * w * res.cap_j * eta_min / res.p_max);
        }
    }
    m
}

fn gen_dt(rng: &mut Rng, dmax: f64, profile: u64) -> f64 {
    // dyadic steps (k/64 s) so that cumulated trace times are exact and the shipped walk sees the same dt
    let k = match profile {
        0 => 64,
        1 => rng.int(13, 192),
        _ => match rng.below(10) {
            0 => rng.int(4, 12),
            1 | 2 => ((dmax * 64.0) as i64).max(4),
            3 => rng.int(4, ((dmax * 64.0) as i64).max(5)),
            _ => rng.int(32, 128),
        },
    };
    let dt = k as f64 / 64.0;
    if profile == 3 {
        // coarse steps BEYOND the derating bound: a single accepted step may carry a battery across its SOC
        // window (limits are evaluated at the start of the step); the ledger must close on such steps too
        let f = *rng.pick(&[1.5, 2.0, 3.0, 5.0, 8.0, 12.0]);
        return ((dmax * f * 64.0).floor() / 64.0).clamp(4.0 / 64.0, 900.0);
    }
    dt.min(((dmax * 64.0).floor() / 64.0).max(4.0 / 64.0))
}

pub fn generate(rng: &mut Rng, focus: &str, thorough: bool) -> Case {
    let as_consist = match focus {
        "C10" => true,
        _ => rng.chance(0.55),
    };
    let n = if as_consist {
        match rng.below(10) {
            0 => 1,
            1..=5 => rng.usize(2, 3),
            _ => rng.usize(4, 8),
        }
    } else {
        1
    };
    let p_bel = *rng.pick(&[0.0, 0.3, 0.5, 0.5, 0.7, 1.0]);
    let mut locos: Vec<LocoSpec> = (0..n).map(|_| {
        let b = rng.chance(p_bel);
        gen_loco(rng, b)
    }).collect();
    if focus == "C19" {
        for l in locos.iter_mut() {
            if rng.chance(0.2) {
                l.kind = KindSpec::Hybrid;
            }
        }
    }
    // sometimes identical units (the shipped shape), sometimes a depleted / full battery among healthy ones
    if n > 1 && rng.chance(0.2) {
        let l0 = locos[0].clone();
        for l in locos.iter_mut().skip(1) {
            if rng.chance(0.6) {
                *l = l0.clone();
            }
        }
    }
    if rng.chance(0.25) {
        for l in locos.iter_mut() {
            if let KindSpec::Bel { res, .. } = &mut l.kind {
                if rng.chance(0.5) {
                    res.soc0 = if rng.chance(0.5) { res.min_soc } else { res.max_soc };
                }
            }
        }
    }
    let dmax = dt_max(&locos);
    let save_interval = match rng.below(8) {
        0 => None,
        1..=4 => Some(1),
        5 => Some(2),
        6 => Some(rng.usize(3, 7)),
        _ => Some(1000),
    };
    // swarm: which fault kinds are enabled in this run
    let p_crash = if rng.chance(0.5) { 0.0 } else { *rng.pick(&[0.01, 0.02, 0.05]) };
    let p_interval = if rng.chance(0.7) { 0.0 } else { 0.03 };
    let p_reject = if rng.chance(0.4) { 0.0 } else { 0.04 };
    let p_engine_off = if rng.chance(0.6) { 0.0 } else { *rng.pick(&[0.05, 0.3]) };
    // C01 only (C09's statement bounds the step size): one run in seven uses steps coarser than the derating bound
    let dt_profile = if focus == "C01" && rng.chance(0.15) { 3 } else { rng.below(3) };
    let n_ticks = if thorough { rng.usize(20, 400) } else { rng.usize(20, 160) };
    // demand profile weights: [at-limit ride, near-limit, inside, zero, brake, regen, sign flips, light regen]
    let prof = match focus {
        "C09" => [4.0, 3.0, 1.0, 0.5, 1.5, 2.0, 1.0, 0.5],
        _ => [
            rng.range(0.2, 3.0),
            rng.range(0.2, 2.0),
            rng.range(0.5, 3.0),
            rng.range(0.1, 1.0),
            rng.range(0.2, 2.0),
            rng.range(0.2, 2.0),
            rng.range(0.1, 1.0),
            rng.range(0.1, 1.5),
        ],
    };
    let mut ops = vec![];
    let mut ride = 0usize;
    let mut last_sign = 1.0;
    for _ in 0..n_ticks {
        if rng.chance(p_crash) {
            let fmt = *rng.pick(&[Fmt::Yaml, Fmt::Yaml, Fmt::Bin, Fmt::Json]);
            let chan = if rng.chance(0.3) { Chan::Reader { seed: rng.next() } } else { Chan::Str };
            ops.push(Op::Crash { fmt, chan });
        }
        if rng.chance(p_interval) {
            let iv = match rng.below(5) {
                0 => None,
                1 | 2 => Some(1),
                3 => Some(2),
                _ => Some(rng.usize(3, 9)),
            };
            ops.push(Op::SetSaveInterval(iv));
        }
        let dt = gen_dt(rng, dmax, dt_profile);
        let engine_on = if rng.chance(p_engine_off) {
            Some(false)
        } else if rng.chance(0.2) {
            None
        } else {
            Some(true)
        };
        let demand = if engine_on == Some(false) {
            // engine off: coasting, dynamic braking (accepted by the code: no fuel, no aux), or traction (must be refused)
            match rng.below(20) {
                0..=11 => Demand::Zero,
                12..=16 => Demand::BrakeTimes(*rng.pick(&[1.0, 0.5, 0.1, 0.9, 0.02])),
                _ => Demand::MaxTimes(r3(rng.range(0.05, 0.5))),
            }
        } else if rng.chance(p_reject) {
            // over-limit requests: must be rejected
            match rng.below(3) {
                0 => Demand::MaxTimes(r3(rng.range(1.05, 1.5))),
                1 => Demand::BrakeTimes(r3(rng.range(1.05, 1.5))),
                _ => Demand::MaxTimes(r3(1.0 + rng.lrange(3e-3, 3e-2))),
            }
        } else if ride > 0 {
            ride -= 1;
            Demand::MaxTimes(1.0)
        } else {
            match rng.weighted(&prof) {
                0 => {
                    ride = rng.usize(2, 30);
                    Demand::MaxTimes(1.0)
                }
                1 => Demand::MaxTimes(*rng.pick(&[1.0 - 1e-6, 1.0 + 1e-6, 0.999, 1.0 + 5e-4, 1.0])),
                2 => Demand::MaxTimes(r3(rng.f())),
                3 => Demand::Zero,
                4 => Demand::BrakeTimes(*rng.pick(&[1.0, 1.0 - 1e-6, 0.5, 0.1, 0.9])),
                5 => Demand::RegenTimes(*rng.pick(&[1.0, 1.0 - 1e-6, 0.5, 1.0 + 1e-6, 1.5])),
                7 => Demand::AuxTimes(*rng.pick(&[0.1, 0.25, 0.5, 0.9, 1.0, 1.1, 2.0])),
                _ => {
                    last_sign = -last_sign;
                    if last_sign > 0.0 { Demand::MaxTimes(r3(rng.f())) } else { Demand::BrakeTimes(r3(rng.f())) }
                }
            }
        };
        ops.push(Op::Tick { dt, demand, engine_on });
    }
    // interval changes that re-set the value already in force, with a unit drifting in between (C19)
    let mut ops = ops;
    let nested_drift = as_consist && ops.iter().any(|o| matches!(o, Op::SetSaveInterval(_))) && rng.chance(0.4);
    if nested_drift {
        if let Some(p) = ops.iter().position(|o| matches!(o, Op::SetSaveInterval(_))) {
            if let Op::SetSaveInterval(iv) = ops[p].clone() {
                let at = (p + 1 + rng.usize(0, 12)).min(ops.len());
                ops.insert(at, Op::SetSaveInterval(iv));
            }
        }
        if rng.chance(0.4) {
            ops.insert(rng.usize(0, 3).min(ops.len()), Op::SetSaveInterval(save_interval));
        }
    }
    let has_crash = ops.iter().any(|o| matches!(o, Op::Crash { .. }));
    Case {
        locos,
        as_consist,
        pdct: if rng.chance(0.5) { "RESGreedy".into() } else { "Proportional".into() },
        save_interval,
        ops,
        hash_seed: rng.next(),
        shipped_walk: !has_crash && rng.chance(0.5),
        twin: focus == "C17",
        nested_drift,
        late_units: as_consist && rng.chance(0.08),
    }
}

// ------------------------------------------------------------------------------------------------
// System under simulation
// ------------------------------------------------------------------------------------------------

#[derive(Clone)]
pub enum Sys {
    Loco(Box<Locomotive>),
    Con(Box<Consist>),
}

impl Sys {
    pub fn locos(&self) -> &[Locomotive] {
        match self {
            Sys::Loco(l) => std::slice::from_ref(&**l),
            Sys::Con(c) => &c.loco_vec,
        }
    }
    fn prelude(&mut self, dt: f64, engine_on: Option<bool>) -> anyhow::Result<()> {
        match self {
            Sys::Loco(l) => {
                l.set_pwr_aux(engine_on);
                l.set_cur_pwr_max_out(None, dt * uc::S)
            }
            Sys::Con(c) => {
                c.set_pwr_aux(engine_on)?;
                c.set_cur_pwr_max_out(None, dt * uc::S)
            }
        }
    }
    fn pwr_out_max(&self) -> f64 {
        match self {
            Sys::Loco(l) => l.state.pwr_out_max.value,
            Sys::Con(c) => c.state.pwr_out_max.value,
        }
    }
    fn pwr_regen_max(&self) -> f64 {
        match self {
            Sys::Loco(l) => l.state.pwr_regen_max.value,
            Sys::Con(c) => c.state.pwr_regen_max.value,
        }
    }
    fn solve(&mut self, p: f64, dt: f64, engine_on: Option<bool>) -> anyhow::Result<()> {
        match self {
            Sys::Loco(l) => l.solve_energy_consumption(p * uc::W, dt * uc::S, engine_on),
            Sys::Con(c) => c.solve_energy_consumption(p * uc::W, dt * uc::S, engine_on),
        }
    }
    fn save_state(&mut self) {
        match self {
            Sys::Loco(l) => l.save_state(),
            Sys::Con(c) => c.save_state(),
        }
    }
    fn step(&mut self) {
        match self {
            Sys::Loco(l) => l.step(),
            Sys::Con(c) => c.step(),
        }
    }
    fn set_save_interval(&mut self, iv: Option<usize>) {
        match self {
            Sys::Loco(l) => l.set_save_interval(iv),
            Sys::Con(c) => c.set_save_interval(iv),
        }
    }
    fn crash(&self, fmt: Fmt, chan: Chan, ctx: &mut Ctx) -> Result<(Sys, bool), String> {
        match self {
            Sys::Loco(l) => ser::crash_restore(&**l, fmt, chan, ctx).map(|(x, u)| (Sys::Loco(Box::new(x)), u)),
            Sys::Con(c) => ser::crash_restore(&**c, fmt, chan, ctx).map(|(x, u)| (Sys::Con(Box::new(x)), u)),
        }
    }
    fn trace(&self, ctx: &mut Ctx) {
        for l in self.locos() {
            ctx.trace.f(l.state.pwr_out.value);
            ctx.trace.f(l.state.energy_out.value);
            ctx.trace.f(l.state.pwr_out_max.value);
            ctx.trace.u(l.state.i as u64);
            ctx.trace.u(l.history.len() as u64);
            match &l.loco_type {
                PowertrainType::ConventionalLoco(c) => {
                    ctx.trace.f(c.fc.state.energy_fuel.value);
                    ctx.trace.f(c.fc.state.pwr_out_max.value);
                    ctx.trace.f(c.gen.state.energy_loss.value);
                    ctx.trace.f(c.edrv.state.energy_loss.value);
                }
                PowertrainType::BatteryElectricLoco(b) => {
                    ctx.trace.f(b.res.state.soc.value);
                    ctx.trace.f(b.res.state.energy_out_chemical.value);
                    ctx.trace.f(b.edrv.state.energy_loss.value);
                }
                _ => {}
            }
        }
        if let Sys::Con(c) = self {
            ctx.trace.f(c.state.energy_out.value);
            ctx.trace.f(c.state.energy_fuel.value);
            ctx.trace.f(c.state.energy_res.value);
            ctx.trace.u(c.history.len() as u64);
        }
    }
}

/// engine shaft power / battery power of the step just solved are inside their own published limits
fn component_limits_respected(l: &Locomotive) -> bool {
    match &l.loco_type {
        PowertrainType::ConventionalLoco(c) => {
            c.fc.state.pwr_brake.value <= c.fc.state.pwr_out_max.value * (1.0 + TOL) + TOL
                && c.fc.state.pwr_brake.value <= c.fc.pwr_out_max.value * (1.0 + TOL) + TOL
                && c.gen.state.pwr_elec_prop_out.value + c.gen.state.pwr_elec_aux.value <= c.gen.pwr_out_max.value * (1.0 + TOL) + TOL
                && c.edrv.state.pwr_out_req.value.abs() <= c.edrv.pwr_out_max.value * (1.0 + TOL) + TOL
        }
        PowertrainType::BatteryElectricLoco(b) => {
            b.res.state.pwr_out_electrical.value <= b.res.state.pwr_disch_max.value * (1.0 + TOL) + TOL
                && -b.res.state.pwr_out_electrical.value <= b.res.state.pwr_charge_max.value * (1.0 + TOL) + TOL
                && b.edrv.state.pwr_out_req.value.abs() <= b.edrv.pwr_out_max.value * (1.0 + TOL) + TOL
        }
        _ => true,
    }
}

fn edrv_of(l: &Locomotive) -> &ElectricDrivetrain {
    match &l.loco_type {
        PowertrainType::ConventionalLoco(c) => &c.edrv,
        PowertrainType::BatteryElectricLoco(b) => &b.edrv,
        PowertrainType::HybridLoco(h) => &h.edrv,
        _ => unreachable!("dummy units are not generated"),
    }
}
/// rated power of a unit's electric drivetrain (its dynamic-braking capability)
pub fn edrv_rating(l: &Locomotive) -> f64 {
    edrv_of(l).pwr_out_max.value
}
fn is_bel(l: &Locomotive) -> bool {
    matches!(l.loco_type, PowertrainType::BatteryElectricLoco(_))
}

// ------------------------------------------------------------------------------------------------
// Reference ledger (independent accumulators; never restored by a crash)
// ------------------------------------------------------------------------------------------------

#[derive(Clone, Default, Debug)]
struct UnitRef {
    // accumulated by the reference from reported powers x the simulator's own dt
    e_fuel: f64,
    e_brake: f64,
    e_fc_loss: f64,
    e_idle: f64,
    e_gen_in: f64,
    e_gen_prop: f64,
    e_gen_aux: f64,
    e_gen_loss: f64,
    e_ed_in: f64,
    e_ed_out: f64,
    e_ed_db: f64,
    e_ed_loss: f64,
    e_res_chem: f64,
    e_res_elec: f64,
    e_res_prop: f64,
    e_res_aux: f64,
    e_res_loss: f64,
    e_out: f64,
    e_aux: f64,
    soc0: f64,
    // previous reported values (monotonicity, ramp rate)
    brake_prev: f64,
    prev_mono: [f64; 8],
    accepted: u64,
}

#[derive(Clone, Default, Debug)]
struct ConRef {
    e_out: f64,
    e_out_pos: f64,
    e_out_neg: f64,
    e_fuel: f64,
    e_res: f64,
}

/// expected alignment of counters and histories (C19)
#[derive(Clone, Default, Debug)]
struct AlignRef {
    i: usize,
    len: usize,
    interval: Option<usize>,
}
impl AlignRef {
    fn on_save(&mut self) {
        if let Some(iv) = self.interval {
            if iv > 0 && self.i % iv == 0 {
                self.len += 1;
            }
        }
    }
}

const REL: f64 = 1e-9;
/// the code's own acceptance tolerance at component limits
const TOL: f64 = 1e-3;

fn eq_e(ctx: &mut Ctx, prop: &str, mon: &str, clause: &str, unit: usize, got: f64, want: f64, scale: f64) {
    if !close(got, want, REL, 1e-6, scale * 1e-3) || !got.is_finite() {
        ctx.violate(prop, mon, clause, format!("unit {unit}: reported {got:e} vs reference {want:e} (diff {:e})", got - want));
    }
}

#[allow(clippy::too_many_arguments)]
fn check_unit_tick(
    ctx: &mut Ctx,
    u: usize,
    l: &Locomotive,
    r: &mut UnitRef,
    dt: f64,
    p_req: f64,
    engine_on: Option<bool>,
    in_consist: bool,
) {
    if matches!(l.loco_type, PowertrainType::HybridLoco(_)) {
        return;
    }
    let st = &l.state;
    let ed = edrv_of(l).state;
    let ed_rating = edrv_of(l).pwr_out_max.value;
    let on = engine_on.unwrap_or(true);
    let pscale = ed_rating.max(1.0);
    r.accepted += 1;

    // ---- drivetrain (common) ----
    r.e_ed_in += ed.pwr_elec_prop_in.value * dt;
    r.e_ed_out += ed.pwr_mech_prop_out.value * dt;
    r.e_ed_db += ed.pwr_mech_dyn_brake.value * dt;
    r.e_ed_loss += ed.pwr_loss.value * dt;
    r.e_out += st.pwr_out.value * dt;
    r.e_aux += st.pwr_aux.value * dt;
    let pw = |ctx: &mut Ctx, clause: &str, a: f64, b: f64| {
        if !close(a, b, REL, 1e-6, pscale * 1e-3) || !a.is_finite() || !b.is_finite() {
            ctx.violate("C01", "ledger.step", clause, format!("unit {u}: {a:e} vs {b:e} (diff {:e})", a - b));
        }
    };
    pw(ctx, "edrv.elec_in=mech_prop_out+loss", ed.pwr_elec_prop_in.value, ed.pwr_mech_prop_out.value + ed.pwr_loss.value);
    pw(ctx, "loco.pwr_out=mech_prop_out-dyn_brake", st.pwr_out.value, ed.pwr_mech_prop_out.value - ed.pwr_mech_dyn_brake.value);
    if !in_consist {
        pw(ctx, "loco.pwr_out=request", st.pwr_out.value, p_req);
    }
    let es = (r.e_ed_in.abs()).max(r.e_ed_out.abs()).max(pscale);
    eq_e(ctx, "C01", "ledger.cumulative", "edrv.energy_elec_prop_in", u, ed.energy_elec_prop_in.value, r.e_ed_in, es);
    eq_e(ctx, "C01", "ledger.cumulative", "edrv.energy_mech_prop_out", u, ed.energy_mech_prop_out.value, r.e_ed_out, es);
    eq_e(ctx, "C01", "ledger.cumulative", "edrv.energy_mech_dyn_brake", u, ed.energy_mech_dyn_brake.value, r.e_ed_db, es);
    eq_e(ctx, "C01", "ledger.cumulative", "edrv.energy_loss", u, ed.energy_loss.value, r.e_ed_loss, es);
    eq_e(ctx, "C01", "ledger.cumulative", "loco.energy_out", u, st.energy_out.value, r.e_out, es);
    eq_e(ctx, "C01", "ledger.cumulative", "loco.energy_aux", u, st.energy_aux.value, r.e_aux, es);

    // ---- C08 drivetrain ----
    let c08 = |ctx: &mut Ctx, clause: &str, ok: bool, d: String| {
        if !ok {
            ctx.violate("C08", "second_law", clause, format!("unit {u}: {d}"));
        }
    };
    let tol_p = 1e-9 * pscale + 1e-6;
    c08(ctx, "edrv.loss>=0", ed.pwr_loss.value >= -tol_p, format!("pwr_loss {:e}", ed.pwr_loss.value));
    c08(ctx, "edrv.eta in (0,1]", ed.eta.value > 0.0 && ed.eta.value <= 1.0 + 1e-12, format!("eta {:e}", ed.eta.value));
    if ed.pwr_mech_prop_out.value >= 0.0 {
        c08(ctx, "edrv.out<=in", ed.pwr_mech_prop_out.value <= ed.pwr_elec_prop_in.value * (1.0 + 1e-9) + tol_p, format!("mech out {:e} > elec in {:e}", ed.pwr_mech_prop_out.value, ed.pwr_elec_prop_in.value));
    } else {
        c08(ctx, "edrv.regen_out<=in", -ed.pwr_elec_prop_in.value <= -ed.pwr_mech_prop_out.value * (1.0 + 1e-9) + tol_p, format!("regen elec {:e} exceeds mech {:e}", ed.pwr_elec_prop_in.value, ed.pwr_mech_prop_out.value));
    }
    c08(ctx, "dyn_brake>=0", ed.pwr_mech_dyn_brake.value >= -tol_p, format!("dyn brake {:e}", ed.pwr_mech_dyn_brake.value));
    // (decided by the demand put to the locomotive / consist alone - not by the unit's own reported output, which a
    // stale dynamic-brake term would turn negative)
    if p_req >= 0.0 {
        c08(ctx, "dyn_brake=0 unless braking", ed.pwr_mech_dyn_brake.value.abs() <= tol_p, format!("dyn brake {:e} with demand {:e}", ed.pwr_mech_dyn_brake.value, st.pwr_out.value));
    }
    if ed.pwr_mech_dyn_brake.value > tol_p {
        ctx.hit("probe.dyn_brake_active");
    }
    if ed.pwr_mech_prop_out.value < -tol_p {
        ctx.hit("probe.regen_active");
    }

    // ---- C09 drivetrain / loco ----
    let c09 = |ctx: &mut Ctx, clause: &str, ok: bool, d: String, sig: Sig| {
        if !ok {
            ctx.violate_sig("C09", "limits", clause, format!("unit {u}: {d}"), sig);
        }
    };
    if l.assert_limits {
        c09(ctx, "edrv.|pwr|<=rating", ed.pwr_out_req.value.abs() <= ed_rating * (1.0 + TOL) + 1e-6,
            format!("drivetrain power {:e} vs rating {:e}", ed.pwr_out_req.value, ed_rating),
            {
                let mut s = sig1("negative", ed.pwr_out_req.value < 0.0);
                s.insert("in_consist".into(), in_consist.into());
                s
            });
        c09(ctx, "loco.pwr_out<=published_max", st.pwr_out.value <= st.pwr_out_max.value * (1.0 + 2.0 * TOL) + 1e-3 + 2.0 * TOL * st.pwr_aux.value,
            format!("pwr_out {:e} vs published pwr_out_max {:e}", st.pwr_out.value, st.pwr_out_max.value),
            {
                let mut s = sig1("standalone", !in_consist);
                s.insert("component_limits_respected".into(), component_limits_respected(l).into());
                s.insert("excess_ratio".into(), (st.pwr_out.value / st.pwr_out_max.value).into());
                s
            });
        c09(ctx, "published.loco_max<=edrv_rating", st.pwr_out_max.value <= ed_rating * (1.0 + 1e-12), format!("published {:e} rating {:e}", st.pwr_out_max.value, ed_rating), Sig::new());
        c09(ctx, "published.loco_max>=-aux", st.pwr_out_max.value >= -st.pwr_aux.value * (1.0 + 1e-9) - 1e-6, format!("published {:e} aux {:e}", st.pwr_out_max.value, st.pwr_aux.value), Sig::new());
        c09(ctx, "published.regen_max in [0,rating]", st.pwr_regen_max.value >= -1e-6 && st.pwr_regen_max.value <= ed_rating * (1.0 + 1e-12), format!("regen max {:e}", st.pwr_regen_max.value), Sig::new());
        if -ed.pwr_mech_prop_out.value > st.pwr_regen_max.value * (1.0 + 1e-9) + 1e-6 {
            ctx.violate("C09", "limits", "regen<=published_regen_max", format!("unit {u}: regen {:e} > published {:e}", -ed.pwr_mech_prop_out.value, st.pwr_regen_max.value));
        }
    }

    match &l.loco_type {
        PowertrainType::ConventionalLoco(c) => {
            let fc = c.fc.state;
            let g = c.gen.state;
            r.e_fuel += fc.pwr_fuel.value * dt;
            r.e_brake += fc.pwr_brake.value * dt;
            r.e_fc_loss += fc.pwr_loss.value * dt;
            r.e_idle += fc.pwr_idle_fuel.value * dt;
            r.e_gen_in += g.pwr_mech_in.value * dt;
            r.e_gen_prop += g.pwr_elec_prop_out.value * dt;
            r.e_gen_aux += g.pwr_elec_aux.value * dt;
            r.e_gen_loss += g.pwr_loss.value * dt;
            pw(ctx, "fc.fuel=brake+loss", fc.pwr_fuel.value, fc.pwr_brake.value + fc.pwr_loss.value);
            pw(ctx, "fc.brake=gen.mech_in", fc.pwr_brake.value, g.pwr_mech_in.value);
            pw(ctx, "gen.mech_in=prop_out+aux+loss", g.pwr_mech_in.value, g.pwr_elec_prop_out.value + g.pwr_elec_aux.value + g.pwr_loss.value);
            pw(ctx, "gen.prop_out=edrv.elec_in", g.pwr_elec_prop_out.value, ed.pwr_elec_prop_in.value);
            // top line: fuel = wheel + dyn brake + aux served + losses
            pw(ctx, "fuel=wheel+dynbrake+aux+losses", fc.pwr_fuel.value,
               st.pwr_out.value + ed.pwr_mech_dyn_brake.value + g.pwr_elec_aux.value + fc.pwr_loss.value + g.pwr_loss.value + ed.pwr_loss.value);
            // aux hand-off: what the locomotive books as auxiliary power is what its generator supplied (a
            // conventional unit has no mechanism that limits aux; the battery-electric arm below does)
            pw(ctx, "loco.pwr_aux=gen.elec_aux", st.pwr_aux.value, g.pwr_elec_aux.value);
            if st.pwr_aux.value > 0.05 * ed_rating {
                ctx.hit("probe.large_aux_load_on_conventional_unit");
            }
            let es = r.e_fuel.abs().max(pscale);
            eq_e(ctx, "C01", "ledger.cumulative", "fc.energy_fuel", u, fc.energy_fuel.value, r.e_fuel, es);
            eq_e(ctx, "C01", "ledger.cumulative", "fc.energy_brake", u, fc.energy_brake.value, r.e_brake, es);
            eq_e(ctx, "C01", "ledger.cumulative", "fc.energy_loss", u, fc.energy_loss.value, r.e_fc_loss, es);
            eq_e(ctx, "C01", "ledger.cumulative", "fc.energy_idle_fuel", u, fc.energy_idle_fuel.value, r.e_idle, es);
            eq_e(ctx, "C01", "ledger.cumulative", "gen.energy_mech_in", u, g.energy_mech_in.value, r.e_gen_in, es);
            eq_e(ctx, "C01", "ledger.cumulative", "gen.energy_elec_prop_out", u, g.energy_elec_prop_out.value, r.e_gen_prop, es);
            eq_e(ctx, "C01", "ledger.cumulative", "gen.energy_elec_aux", u, g.energy_elec_aux.value, r.e_gen_aux, es);
            eq_e(ctx, "C01", "ledger.cumulative", "gen.energy_loss", u, g.energy_loss.value, r.e_gen_loss, es);
            eq_e(ctx, "C01", "ledger.cumulative", "fuel=wheel+dynbrake+aux+losses", u, fc.energy_fuel.value,
                 st.energy_out.value + ed.energy_mech_dyn_brake.value + g.energy_elec_aux.value + fc.energy_loss.value + g.energy_loss.value + ed.energy_loss.value, es);

            // C08
            c08(ctx, "fc.loss>=0", fc.pwr_loss.value >= -tol_p, format!("fc pwr_loss {:e}", fc.pwr_loss.value));
            c08(ctx, "gen.loss>=0", g.pwr_loss.value >= -tol_p, format!("gen pwr_loss {:e}", g.pwr_loss.value));
            c08(ctx, "fc.eta in (0,1]", fc.eta.value > 0.0 && fc.eta.value <= 1.0 + 1e-12, format!("fc eta {:e}", fc.eta.value));
            c08(ctx, "gen.eta in (0,1]", g.eta.value > 0.0 && g.eta.value <= 1.0 + 1e-12, format!("gen eta {:e}", g.eta.value));
            c08(ctx, "fc.out<=in", fc.pwr_brake.value <= fc.pwr_fuel.value * (1.0 + 1e-9) + tol_p, format!("brake {:e} fuel {:e}", fc.pwr_brake.value, fc.pwr_fuel.value));
            c08(ctx, "gen.out<=in", g.pwr_elec_prop_out.value + g.pwr_elec_aux.value <= g.pwr_mech_in.value * (1.0 + 1e-9) + tol_p, format!("elec out {:e} mech in {:e}", g.pwr_elec_prop_out.value + g.pwr_elec_aux.value, g.pwr_mech_in.value));
            if !on {
                ctx.hit("probe.engine_off_accepted");
                c08(ctx, "engine_off.fuel=0", fc.pwr_fuel.value == 0.0, format!("engine off, pwr_fuel {:e} W", fc.pwr_fuel.value));
                c08(ctx, "engine_off.idle_fuel=0", fc.pwr_idle_fuel.value == 0.0, format!("engine off, pwr_idle_fuel {:e}", fc.pwr_idle_fuel.value));
                c08(ctx, "engine_off.aux=0", g.pwr_elec_aux.value == 0.0 && st.pwr_aux.value == 0.0, format!("engine off, served aux {:e}, loco aux {:e}", g.pwr_elec_aux.value, st.pwr_aux.value));
            }
            let mono = [fc.energy_fuel.value, fc.energy_loss.value, g.energy_loss.value, ed.energy_loss.value, ed.energy_mech_dyn_brake.value, fc.energy_brake.value, 0.0, 0.0];
            for (k, name) in ["fc.energy_fuel", "fc.energy_loss", "gen.energy_loss", "edrv.energy_loss", "edrv.energy_mech_dyn_brake", "fc.energy_brake"].iter().enumerate() {
                if mono[k] < r.prev_mono[k] - (1e-9 * r.prev_mono[k].abs() + 1e-6) {
                    ctx.violate("C08", "monotone", name, format!("unit {u}: {} decreased from {:e} to {:e}", name, r.prev_mono[k], mono[k]));
                }
            }
            r.prev_mono = mono;

            // C09
            if l.assert_limits {
                let rating = c.fc.pwr_out_max.value;
                c09(ctx, "fc.brake<=rating", fc.pwr_brake.value <= rating * (1.0 + TOL) + TOL, format!("shaft {:e} rating {:e}", fc.pwr_brake.value, rating), Sig::new());
                c09(ctx, "fc.brake<=published_transient", fc.pwr_brake.value <= fc.pwr_out_max.value * (1.0 + TOL) + TOL, format!("shaft {:e} transient limit {:e}", fc.pwr_brake.value, fc.pwr_out_max.value), Sig::new());
                let floor = c.fc.pwr_out_max_init.value.max(rating / 10.0);
                let allowed = (r.brake_prev + rating / c.fc.pwr_ramp_lag.value * dt).max(floor);
                c09(ctx, "transient<=prev_shaft+rate*dt", fc.pwr_out_max.value <= allowed * (1.0 + 1e-9) + 1e-6, format!("published transient {:e} > max(floor {:e}, prev shaft {:e} + ramp) = {:e}", fc.pwr_out_max.value, floor, r.brake_prev, allowed), Sig::new());
                c09(ctx, "transient<=rating", fc.pwr_out_max.value <= rating * (1.0 + 1e-12), format!("published transient {:e} rating {:e}", fc.pwr_out_max.value, rating), Sig::new());
                c09(ctx, "gen.out<=rating", g.pwr_elec_prop_out.value + g.pwr_elec_aux.value <= c.gen.pwr_out_max.value * (1.0 + TOL) + TOL, format!("gen out {:e} rating {:e}", g.pwr_elec_prop_out.value + g.pwr_elec_aux.value, c.gen.pwr_out_max.value), Sig::new());
                if fc.pwr_brake.value >= fc.pwr_out_max.value * (1.0 - 1e-4) && fc.pwr_out_max.value < rating {
                    ctx.hit("probe.fc_riding_transient_limit");
                }
            }
            // the reference's own record of the shaft power this step delivered: what the generator took in (the
            // hand-off is a C01 clause of its own), and nothing at all when the engine was commanded off - not the
            // engine's state field, which a step that returns early may leave as it was
            r.brake_prev = if on { g.pwr_mech_in.value } else { 0.0 };
        }
        PowertrainType::BatteryElectricLoco(b) => {
            let rs = b.res.state;
            let cap = b.res.energy_capacity.value;
            r.e_res_chem += rs.pwr_out_chemical.value * dt;
            r.e_res_elec += rs.pwr_out_electrical.value * dt;
            r.e_res_prop += rs.pwr_out_propulsion.value * dt;
            r.e_res_aux += rs.pwr_aux.value * dt;
            r.e_res_loss += rs.pwr_loss.value * dt;
            pw(ctx, "res.chemical=electrical+loss", rs.pwr_out_chemical.value, rs.pwr_out_electrical.value + rs.pwr_loss.value);
            pw(ctx, "res.electrical=propulsion+aux", rs.pwr_out_electrical.value, rs.pwr_out_propulsion.value + rs.pwr_aux.value);
            pw(ctx, "res.propulsion=edrv.elec_in", rs.pwr_out_propulsion.value, ed.pwr_elec_prop_in.value);
            pw(ctx, "chemical=wheel+dynbrake+aux+losses", rs.pwr_out_chemical.value,
               st.pwr_out.value + ed.pwr_mech_dyn_brake.value + rs.pwr_aux.value + rs.pwr_loss.value + ed.pwr_loss.value);
            if !(st.pwr_aux.value >= rs.pwr_aux.value * (1.0 - 1e-12) - 1e-9) {
                ctx.violate("C01", "ledger.step", "loco.pwr_aux>=served_aux", format!("unit {u}: demand {:e} served {:e}", st.pwr_aux.value, rs.pwr_aux.value));
            }
            if st.pwr_aux.value > rs.pwr_aux.value + 1e-6 {
                ctx.hit("probe.bel_aux_limited");
            }
            let es = r.e_res_chem.abs().max(r.e_res_elec.abs()).max(pscale);
            eq_e(ctx, "C01", "ledger.cumulative", "res.energy_out_chemical", u, rs.energy_out_chemical.value, r.e_res_chem, es);
            eq_e(ctx, "C01", "ledger.cumulative", "res.energy_out_electrical", u, rs.energy_out_electrical.value, r.e_res_elec, es);
            eq_e(ctx, "C01", "ledger.cumulative", "res.energy_out_propulsion", u, rs.energy_out_propulsion.value, r.e_res_prop, es);
            eq_e(ctx, "C01", "ledger.cumulative", "res.energy_aux", u, rs.energy_aux.value, r.e_res_aux, es);
            eq_e(ctx, "C01", "ledger.cumulative", "res.energy_loss", u, rs.energy_loss.value, r.e_res_loss, es);
            // state of charge moves by exactly the reported chemical energy / capacity
            let soc_ref = r.soc0 - r.e_res_chem / cap;
            if !close(rs.soc.value, soc_ref, 1e-9, 1e-12, 1.0) {
                ctx.violate("C01", "ledger.soc", "soc=soc0-energy_chemical/capacity", format!("unit {u}: soc {:e} reference {:e} (diff {:e})", rs.soc.value, soc_ref, rs.soc.value - soc_ref));
            }
            // C08
            c08(ctx, "res.loss>=0", rs.pwr_loss.value >= -tol_p, format!("res pwr_loss {:e}", rs.pwr_loss.value));
            c08(ctx, "res.eta in (0,1]", rs.eta.value > 0.0 && rs.eta.value <= 1.0 + 1e-12, format!("res eta {:e}", rs.eta.value));
            if rs.pwr_out_electrical.value >= 0.0 {
                c08(ctx, "res.out<=in", rs.pwr_out_electrical.value <= rs.pwr_out_chemical.value * (1.0 + 1e-9) + tol_p, format!("elec {:e} chem {:e}", rs.pwr_out_electrical.value, rs.pwr_out_chemical.value));
            } else {
                c08(ctx, "res.charge_out<=in", -rs.pwr_out_chemical.value <= -rs.pwr_out_electrical.value * (1.0 + 1e-9) + tol_p, format!("chem {:e} elec {:e}", rs.pwr_out_chemical.value, rs.pwr_out_electrical.value));
            }
            if !on {
                c08(ctx, "engine_off.aux=0", rs.pwr_aux.value == 0.0 && st.pwr_aux.value == 0.0, format!("commanded off, served aux {:e}, loco aux {:e}", rs.pwr_aux.value, st.pwr_aux.value));
            }
            let mono = [rs.energy_loss.value, ed.energy_loss.value, ed.energy_mech_dyn_brake.value, 0.0, 0.0, 0.0, 0.0, 0.0];
            for (k, name) in ["res.energy_loss", "edrv.energy_loss", "edrv.energy_mech_dyn_brake"].iter().enumerate() {
                if mono[k] < r.prev_mono[k] - (1e-9 * r.prev_mono[k].abs() + 1e-6) {
                    ctx.violate("C08", "monotone", name, format!("unit {u}: {} decreased from {:e} to {:e}", name, r.prev_mono[k], mono[k]));
                }
            }
            r.prev_mono = mono;
            // C09
            if l.assert_limits {
                let rating = b.res.pwr_out_max.value;
                c09(ctx, "res.|elec|<=rating", rs.pwr_out_electrical.value.abs() <= rating * (1.0 + TOL) + TOL, format!("battery power {:e} rating {:e}", rs.pwr_out_electrical.value, rating), Sig::new());
                c09(ctx, "res.elec<=published_disch_max", rs.pwr_out_electrical.value <= rs.pwr_disch_max.value * (1.0 + TOL) + TOL, format!("battery power {:e} published discharge limit {:e}", rs.pwr_out_electrical.value, rs.pwr_disch_max.value), Sig::new());
                c09(ctx, "res.elec>=-published_charge_max", -rs.pwr_out_electrical.value <= rs.pwr_charge_max.value * (1.0 + TOL) + TOL, format!("battery power {:e} published charge limit {:e}", rs.pwr_out_electrical.value, rs.pwr_charge_max.value), Sig::new());
                c09(ctx, "published.disch/charge in [0,rating]", rs.pwr_disch_max.value >= -1e-6 && rs.pwr_disch_max.value <= rating * (1.0 + 1e-12) && rs.pwr_charge_max.value >= -1e-6 && rs.pwr_charge_max.value <= rating * (1.0 + 1e-12), format!("disch {:e} charge {:e} rating {:e}", rs.pwr_disch_max.value, rs.pwr_charge_max.value, rating), Sig::new());
                let (lo, hi) = (b.res.min_soc.value, b.res.max_soc.value);
                c09(ctx, "soc in window", rs.soc.value >= lo - 1e-9 && rs.soc.value <= hi + 1e-9, format!("soc {:.9} outside [{lo}, {hi}]", rs.soc.value), Sig::new());
                let lo_r = b.res.soc_lo_ramp_start.map(|x| x.value).unwrap_or(lo + 0.05);
                let hi_r = b.res.soc_hi_ramp_start.map(|x| x.value).unwrap_or(hi - 0.05);
                if rs.soc.value < lo_r {
                    ctx.hit("probe.res.soc_in_low_ramp");
                }
                if rs.soc.value > hi_r {
                    ctx.hit("probe.res.soc_in_high_ramp");
                }
                if rs.soc.value <= lo + 1e-6 {
                    ctx.hit("probe.res.soc_at_min");
                }
                if rs.soc.value >= hi - 1e-6 {
                    ctx.hit("probe.res.soc_at_max");
                }
            }
        }
        _ => {}
    }
}

fn check_consist_tick(ctx: &mut Ctx, c: &Consist, cr: &mut ConRef, refs: &[UnitRef], dt: f64, p_req: f64, pdct: &str) {
    if c.loco_vec.iter().any(|l| matches!(l.loco_type, PowertrainType::HybridLoco(_))) {
        return;
    }
    let s = &c.state;
    let n = c.loco_vec.len();
    let sum = |f: &dyn Fn(&Locomotive) -> f64| -> f64 { c.loco_vec.iter().map(|l| f(l)).sum() };
    let p_sum = sum(&|l| l.state.pwr_out.value);
    let fuel_sum = sum(&|l| match &l.loco_type { PowertrainType::ConventionalLoco(x) => x.fc.state.pwr_fuel.value, _ => 0.0 });
    let res_sum = sum(&|l| match &l.loco_type { PowertrainType::BatteryElectricLoco(x) => x.res.state.pwr_out_chemical.value, _ => 0.0 });
    let scale = sum(&|l| edrv_of(l).pwr_out_max.value).max(1.0);
    let pw = |ctx: &mut Ctx, clause: &str, a: f64, b: f64| {
        if !close(a, b, REL, 1e-6, scale * 1e-3) || !a.is_finite() {
            ctx.violate("C01", "ledger.consist", clause, format!("{a:e} vs {b:e} (diff {:e})", a - b));
        }
    };
    pw(ctx, "consist.pwr_out=sum(units)", s.pwr_out.value, p_sum);
    pw(ctx, "consist.pwr_fuel=sum(units)", s.pwr_fuel.value, fuel_sum);
    pw(ctx, "consist.pwr_reves=sum(units)", s.pwr_reves.value, res_sum);
    cr.e_out += s.pwr_out.value * dt;
    if s.pwr_out.value >= 0.0 { cr.e_out_pos += s.pwr_out.value * dt } else { cr.e_out_neg -= s.pwr_out.value * dt }
    cr.e_fuel += s.pwr_fuel.value * dt;
    cr.e_res += s.pwr_reves.value * dt;
    let es = cr.e_out_pos.max(cr.e_out_neg).max(cr.e_fuel.abs()).max(scale);
    eq_e(ctx, "C01", "ledger.consist", "consist.energy_out", 0, s.energy_out.value, cr.e_out, es);
    eq_e(ctx, "C01", "ledger.consist", "consist.energy_out_pos", 0, s.energy_out_pos.value, cr.e_out_pos, es);
    eq_e(ctx, "C01", "ledger.consist", "consist.energy_out_neg", 0, s.energy_out_neg.value, cr.e_out_neg, es);
    eq_e(ctx, "C01", "ledger.consist", "consist.energy_fuel", 0, s.energy_fuel.value, cr.e_fuel, es);
    eq_e(ctx, "C01", "ledger.consist", "consist.energy_res", 0, s.energy_res.value, cr.e_res, es);
    // consist totals equal the sums over its locomotives (reference accumulators of the units)
    eq_e(ctx, "C01", "ledger.consist", "consist.energy_out=sum(loco.energy_out)", 0, s.energy_out.value, refs.iter().map(|r| r.e_out).sum(), es);
    eq_e(ctx, "C01", "ledger.consist", "consist.energy_fuel=sum(fc.energy_fuel)", 0, s.energy_fuel.value, refs.iter().map(|r| r.e_fuel).sum(), es);
    eq_e(ctx, "C01", "ledger.consist", "consist.energy_res=sum(res.energy_chemical)", 0, s.energy_res.value, refs.iter().map(|r| r.e_res_chem).sum(), es);
    eq_e(ctx, "C01", "ledger.consist", "get_energy_fuel()", 0, c.get_energy_fuel().value, refs.iter().map(|r| r.e_fuel).sum(), es);
    eq_e(ctx, "C01", "ledger.consist", "get_net_energy_res()", 0, c.get_net_energy_res().value, refs.iter().map(|r| r.e_res_chem).sum(), es);

    // ---- C09 at consist level ----
    let db_max: f64 = sum(&|l| edrv_of(l).pwr_out_max.value);
    if !(p_req <= s.pwr_out_max.value + 1e-12 * s.pwr_out_max.value.abs() + 1e-9) {
        ctx.violate("C09", "limits", "consist.request<=published_max", format!("request {p_req:e} published {:e}", s.pwr_out_max.value));
    }
    if !(-p_req <= db_max * (1.0 + 1e-12) + 1e-9) {
        ctx.violate("C09", "limits", "consist.braking<=dyn_brake_max", format!("request {p_req:e} dyn brake capability {db_max:e}"));
    }

    // ---- C10 split ----
    let c10 = |ctx: &mut Ctx, clause: &str, ok: bool, d: String, sig: Sig| {
        if !ok {
            ctx.violate_sig("C10", "split", clause, d, sig);
        }
    };
    c10(ctx, "sum(units)=request", close(p_sum, p_req, 1e-8, 1e-6, 0.0), format!("sum {p_sum:e} request {p_req:e} diff {:e}", p_sum - p_req), Sig::new());
    let eps = 1e-9 * scale + 1e-6;
    let mut conv_sum = 0.0;
    let mut bel_lim = 0.0;
    for (u, l) in c.loco_vec.iter().enumerate() {
        let p = l.state.pwr_out.value;
        let ed = edrv_of(l);
        let bel = is_bel(l);
        let mut sg = sig1("unit_is_bel", bel);
        sg.insert("unit_pwr_out_max".into(), l.state.pwr_out_max.value.into());
        sg.insert("unit_pwr_out".into(), p.into());
        sg.insert("request".into(), p_req.into());
        c10(ctx, "unit<=published_max", p <= l.state.pwr_out_max.value * (1.0 + 1e-9) + eps, format!("unit {u}: assigned {p:e} > published limit {:e}", l.state.pwr_out_max.value), sg.clone());
        c10(ctx, "unit braking<=edrv rating", -p <= ed.pwr_out_max.value * (1.0 + 1e-9) + eps, format!("unit {u}: braking {p:e} beyond drivetrain rating {:e}", ed.pwr_out_max.value), sg.clone());
        if p_req > 0.0 {
            c10(ctx, "no unit brakes while consist pushes", p >= -eps, format!("unit {u} ({}): assigned {p:e} W while consist delivers {p_req:e} W", if bel { "BEL" } else { "conv" }), sg.clone());
        } else if p_req < 0.0 {
            c10(ctx, "no unit pushes while consist brakes", p <= eps, format!("unit {u}: assigned {p:e} W while consist brakes {p_req:e} W"), sg.clone());
        } else {
            c10(ctx, "zero request => zero units", p.abs() <= eps, format!("unit {u}: assigned {p:e} with zero request"), sg.clone());
        }
        let regen = -ed.state.pwr_mech_prop_out.value;
        if regen > eps {
            c10(ctx, "regen only on battery units", bel, format!("unit {u}: conventional unit regenerates {regen:e}"), sg.clone());
            c10(ctx, "regen<=published regen limit", regen <= l.state.pwr_regen_max.value * (1.0 + 1e-9) + eps, format!("unit {u}: regen {regen:e} > {:e}", l.state.pwr_regen_max.value), sg.clone());
        }
        if bel {
            bel_lim += l.state.pwr_out_max.value;
        } else {
            conv_sum += p;
        }
    }
    if pdct == "RESGreedy" && p_req > 0.0 && n > 0 {
        let want = (p_req - bel_lim).max(0.0);
        let mut sg = sig1("bel_limit_sum", bel_lim);
        sg.insert("request".into(), p_req.into());
        c10(ctx, "RESGreedy: conventional=max(0,request-battery limits)", close(conv_sum, want, 1e-8, 1e-6, scale * 1e-6), format!("conventional units deliver {conv_sum:e}, expected {want:e} (request {p_req:e}, battery limits {bel_lim:e})"), sg);
        if want > 0.0 && bel_lim > 0.0 {
            ctx.hit("probe.consist.deficit_branch_with_bel");
        }
    }
    if s.pwr_regen_deficit.value > 0.0 && p_req < 0.0 {
        ctx.hit("probe.consist.regen_deficit_branch");
    }
}

/// The split evaluated (real code, public `SolvePower` API) on the state of a step that a unit refused.
fn check_refused_split(ctx: &mut Ctx, c: &Consist, p_req: f64) {
    use altrios_core::consist::SolvePower;
    let mut pd = c.pdct.clone();
    let v = if p_req > 0.0 { pd.solve_positive_traction(&c.loco_vec, &c.state) } else { pd.solve_negative_traction(&c.loco_vec, &c.state) };
    let Ok(v) = v else { return };
    ctx.hit("probe.consist.refused_step_split_examined");
    let scale: f64 = c.loco_vec.iter().map(|l| edrv_of(l).pwr_out_max.value).sum::<f64>().max(1.0);
    let eps = 1e-9 * scale + 1e-6;
    for (u, (l, p)) in c.loco_vec.iter().zip(&v).enumerate() {
        let p = p.value;
        let rating = edrv_of(l).pwr_out_max.value;
        if -p > rating * (1.0 + 1e-9) + eps {
            ctx.violate("C10", "split", "unit braking<=edrv rating", format!("refused step: unit {u} asked for {:e} W of braking, drivetrain rating {rating:e} W (consist request {p_req:e} W inside its published capability)", -p));
        }
        if p > l.state.pwr_out_max.value * (1.0 + 1e-9) + eps {
            ctx.violate("C10", "split", "unit<=published_max", format!("refused step: unit {u} asked for {p:e} W, published limit {:e} W (consist request {p_req:e} W)", l.state.pwr_out_max.value));
        }
    }
}

/// C19: counters and histories aligned through the whole tree
fn check_alignment(ctx: &mut Ctx, sys: &Sys, a: &AlignRef, after: &str) {
    let mut items: Vec<(String, usize, usize, Option<usize>, Vec<usize>)> = vec![]; // name, i, hist len, interval, i column
    for (u, l) in sys.locos().iter().enumerate() {
        items.push((format!("loco{u}"), l.state.i, l.history.len(), l.get_save_interval(), l.history.i.clone()));
        let short = |h_i: &Vec<usize>, other: usize| if h_i.len() == other { h_i.clone() } else { vec![usize::MAX] };
        match &l.loco_type {
            PowertrainType::ConventionalLoco(c) => {
                items.push((format!("loco{u}.fc"), c.fc.state.i, c.fc.history.len(), c.fc.save_interval, short(&c.fc.history.i, c.fc.history.engine_on.len())));
                items.push((format!("loco{u}.gen"), c.gen.state.i, c.gen.history.len(), c.gen.save_interval, short(&c.gen.history.i, c.gen.history.energy_loss.len())));
                items.push((format!("loco{u}.edrv"), c.edrv.state.i, c.edrv.history.len(), c.edrv.save_interval, short(&c.edrv.history.i, c.edrv.history.energy_loss.len())));
            }
            PowertrainType::BatteryElectricLoco(b) => {
                items.push((format!("loco{u}.res"), b.res.state.i, b.res.history.len(), b.res.save_interval, short(&b.res.history.i, b.res.history.temperature_celsius.len())));
                items.push((format!("loco{u}.edrv"), b.edrv.state.i, b.edrv.history.len(), b.edrv.save_interval, short(&b.edrv.history.i, b.edrv.history.energy_loss.len())));
            }
            PowertrainType::HybridLoco(h) => {
                ctx.hit("probe.align.hybrid_unit");
                items.push((format!("loco{u}.fc"), h.fc.state.i, h.fc.history.len(), h.fc.save_interval, short(&h.fc.history.i, h.fc.history.engine_on.len())));
                items.push((format!("loco{u}.gen"), h.gen.state.i, h.gen.history.len(), h.gen.save_interval, short(&h.gen.history.i, h.gen.history.energy_loss.len())));
                items.push((format!("loco{u}.res"), h.res.state.i, h.res.history.len(), h.res.save_interval, short(&h.res.history.i, h.res.history.temperature_celsius.len())));
                items.push((format!("loco{u}.edrv"), h.edrv.state.i, h.edrv.history.len(), h.edrv.save_interval, short(&h.edrv.history.i, h.edrv.history.energy_loss.len())));
            }
            _ => {}
        }
    }
    if let Sys::Con(c) = sys {
        items.push(("consist".into(), c.state.i, c.history.len(), c.get_save_interval(), c.history.i.clone()));
    }
    for (name, i, len, iv, col) in &items {
        if *i != a.i {
            ctx.violate("C19", "alignment", "step counters equal", format!("after {after}: {name}.state.i = {i}, expected {}", a.i));
        }
        if *len != a.len {
            ctx.violate("C19", "alignment", "history length", format!("after {after}: {name}.history.len() = {len}, expected {} (interval {:?})", a.len, a.interval));
        }
        if *iv != a.interval {
            ctx.violate("C19", "alignment", "save interval reaches every nested object", format!("after {after}: {name}.save_interval = {iv:?}, expected {:?}", a.interval));
        }
        if *col != items[0].4 {
            ctx.violate("C19", "alignment", "entry k refers to the same step", format!("after {after}: {name}.history.i = {:?} vs {}.history.i = {:?}", &col[..col.len().min(6)], items[0].0, &items[0].4[..items[0].4.len().min(6)]));
        }
    }
    if a.interval.is_none() && items.iter().any(|x| x.2 != 0) && a.len == 0 {
        ctx.violate("C19", "alignment", "saving disabled => empty", format!("after {after}: non-empty history with interval None"));
    }
}

// ------------------------------------------------------------------------------------------------
// Executor
// ------------------------------------------------------------------------------------------------

pub struct RunResult {
    /// accepted (dt, p, engine_on) in order
    pub accepted: Vec<(f64, f64, Option<bool>)>,
    pub sys: Sys,
    pub step_hashes: Vec<u64>,
}

fn run_ops(case: &Case, ctx: &mut Ctx, with_faults: bool, monitors: bool) -> Result<RunResult, String> {
    let mut sys = if case.as_consist { Sys::Con(Box::new(build_consist(case))) } else { Sys::Loco(Box::new(build_loco(&case.locos[0], case.save_interval))) };
    let n = sys.locos().len();
    let mut refs: Vec<UnitRef> = vec![UnitRef::default(); n];
    for (r, l) in refs.iter_mut().zip(sys.locos()) {
        if let PowertrainType::BatteryElectricLoco(b) = &l.loco_type {
            r.soc0 = b.res.state.soc.value;
        }
        if let PowertrainType::ConventionalLoco(c) = &l.loco_type {
            r.brake_prev = c.fc.state.pwr_brake.value;
        }
    }
    let mut cref = ConRef::default();
    let mut align = AlignRef { i: 1, len: 0, interval: case.save_interval };
    let db_cap: f64 = sys.locos().iter().map(|l| edrv_of(l).pwr_out_max.value).sum();
    let mut accepted = vec![];
    let mut step_hashes = vec![];
    // the shipped walk() saves the initial state first
    ctx.layer = "pt.tick";
    sys.save_state();
    align.on_save();
    if monitors {
        check_alignment(ctx, &sys, &align, "initial save");
    }
    let mut json_used = false;
    for (k, op) in case.ops.iter().enumerate() {
        ctx.event = k;
        match op {
            Op::SetSaveInterval(iv) => {
                if case.nested_drift {
                    if let Sys::Con(c) = &mut sys {
                        let own = if *iv == Some(9) { None } else { Some(9) };
                        let n = c.loco_vec.len();
                        if let Some(l) = c.loco_vec.get_mut(n / 2) {
                            l.set_save_interval(own);
                            ctx.hit("fault.interval.nested_drift_before_change");
                        }
                    }
                }
                sys.set_save_interval(*iv);
                align.interval = *iv;
                ctx.hit("fault.interval.change");
                if monitors {
                    check_alignment(ctx, &sys, &align, "set_save_interval");
                }
            }
            Op::Crash { fmt, chan } => {
                if !with_faults {
                    continue;
                }
                ctx.layer = "save/load";
                match sys.crash(*fmt, *chan, ctx) {
                    Ok((s2, used)) => {
                        if used && *fmt == Fmt::Json {
                            json_used = true;
                        }
                        sys = s2;
                    }
                    Err(e) => {
                        ctx.violate("C17", "roundtrip", "yaml reload of a state reached by simulation", e.clone());
                        return Err(e);
                    }
                }
                ctx.layer = "pt.tick";
                if monitors {
                    check_alignment(ctx, &sys, &align, "crash/restore");
                }
            }
            Op::Tick { dt, demand, engine_on } => {
                let (dt, engine_on) = (*dt, *engine_on);
                let before = sys.clone();
                if let Err(e) = sys.prelude(dt, engine_on) {
                    ctx.hit("stat.prelude_err");
                    ctx.hit_dyn(format!("note.prelude_err: {}", first_line(&e)));
                    sys = before;
                    continue;
                }
                let pmax = sys.pwr_out_max();
                let p = match demand {
                    Demand::MaxTimes(x) => x * pmax,
                    Demand::BrakeTimes(x) => -x * db_cap,
                    Demand::RegenTimes(x) => -x * sys.pwr_regen_max(),
                    Demand::Zero => 0.0,
                    Demand::Abs(x) => *x,
                    Demand::AuxTimes(x) => -x * max_aux(&sys),
                };
                // over-limit by more than the code's tolerance => must be rejected (C09)
                let must_reject = match demand {
                    Demand::MaxTimes(x) => *x >= 1.0 + 2.5 * TOL && pmax > 0.0 && p > pmax + 4.0 * TOL * max_aux(&sys) + 1.0,
                    Demand::BrakeTimes(x) => *x >= 1.0 + 2.5 * TOL,
                    _ => false,
                };
                // a closed-loop client: a request at the published limit that is refused is retried lower
                let backoff: &[f64] = if !must_reject && matches!(demand, Demand::MaxTimes(x) | Demand::RegenTimes(x) | Demand::BrakeTimes(x) if *x <= 1.0 + 1e-3) {
                    &[1.0, 0.9995, 0.995, 0.98, 0.95, 0.9, 0.75, 0.5]
                } else {
                    &[1.0]
                };
                let mut done = false;
                for (try_k, f) in backoff.iter().enumerate() {
                    let p = p * f;
                    if try_k > 0 {
                        sys = before.clone();
                        if sys.prelude(dt, engine_on).is_err() {
                            break;
                        }
                        ctx.hit("stat.tick.retry_lower");
                    }
                    match sys.solve(p, dt, engine_on) {
                        Ok(()) => {
                            if must_reject {
                                let mut sg = sig1("negative", p < 0.0);
                                sg.insert("standalone".into(), (!case.as_consist).into());
                                sg.insert("component_limits_respected".into(), sys.locos().iter().all(component_limits_respected).into());
                                ctx.violate_sig("C09", "limits", "over-limit request is rejected", format!("demand {p:e} W accepted; published limit {pmax:e} W, braking capability {db_cap:e} W"), sg);
                            }
                            sys.save_state();
                            align.on_save();
                            sys.step();
                            align.i += 1;
                            ctx.sim_s += dt;
                            ctx.hit("stat.ticks");
                            accepted.push((dt, p, engine_on));
                            if monitors {
                                for (u, l) in sys.locos().iter().enumerate() {
                                    check_unit_tick(ctx, u, l, &mut refs[u], dt, p, engine_on, case.as_consist);
                                }
                                if let Sys::Con(c) = &sys {
                                    check_consist_tick(ctx, c, &mut cref, &refs, dt, p, &case.pdct);
                                }
                                check_alignment(ctx, &sys, &align, "tick");
                            }
                            let t0 = ctx.trace.0;
                            sys.trace(ctx);
                            step_hashes.push(ctx.trace.0 ^ t0.rotate_left(7));
                            done = true;
                        }
                        Err(e) => {
                            if must_reject {
                                ctx.hit("fault.tick.reject");
                            } else if try_k + 1 == backoff.len() {
                                ctx.hit("stat.tick.rejected_other");
                                if std::env::var("ALTSIM_NOTES").is_ok() {
                                    ctx.hit_dyn(format!("note.reject[{:?}]: {}", demand, first_line(&e)));
                                }
                            }
                            // C10 on refused steps: a request inside the consist's published capability that a unit
                            // refuses must not have been caused by the split asking that unit for more than it can do
                            if monitors && try_k == 0 {
                                if let Sys::Con(c) = &sys {
                                    if c.state.pwr_out_req.value == p && p <= pmax && -p <= db_cap && p != 0.0 {
                                        check_refused_split(ctx, c, p);
                                    }
                                }
                            }
                            let msg = format!("{e:#}");
                            if msg.trim().is_empty() {
                                ctx.violate("C09", "limits", "rejection carries a message", "empty error".into());
                            }
                        }
                    }
                    if done {
                        break;
                    }
                }
                if !done {
                    // the failed step's partial state is not promised to be usable: the client restores its checkpoint
                    sys = before;
                    if monitors {
                        check_alignment(ctx, &sys, &align, "rejected tick");
                    }
                }
            }
        }
    }
    let _ = json_used;
    Ok(RunResult { accepted, sys, step_hashes })
}

fn max_aux(sys: &Sys) -> f64 {
    sys.locos().iter().map(|l| l.state.pwr_aux.value).sum()
}

fn first_line(e: &anyhow::Error) -> String {
    let s = format!("{e:#}");
    let l = s.lines().last().unwrap_or("").trim();
    l.chars().take(90).collect()
}

pub fn execute(case: &Case, ctx: &mut Ctx) {
    ctx.class.push(format!(
        "pt:{}:{}:n{}:bel{}:iv{:?}",
        if case.as_consist { "con" } else { "loco" },
        case.pdct,
        case.locos.len(),
        case.locos.iter().filter(|l| matches!(l.kind, KindSpec::Bel { .. })).count(),
        case.save_interval.map(|x| x.min(3))
    ));
    let res = match run_ops(case, ctx, true, true) {
        Ok(r) => r,
        Err(_) => return,
    };
    ctx.nontrivial = res.accepted.len() >= 5;
    let has_crash = case.ops.iter().any(|o| matches!(o, Op::Crash { .. }));

    // fault-free twin: the faulted run must be indistinguishable (resume equivalence, C17)
    if case.twin && has_crash {
        let mut c2 = Ctx::default();
        if let Ok(tw) = run_ops(case, &mut c2, false, false) {
            ctx.layer = "save/load";
            let json = case.ops.iter().any(|o| matches!(o, Op::Crash { fmt: Fmt::Json, .. }));
            if !json {
                if tw.step_hashes != res.step_hashes {
                    let k = tw.step_hashes.iter().zip(&res.step_hashes).position(|(a, b)| a != b).unwrap_or(tw.step_hashes.len().min(res.step_hashes.len()));
                    ctx.violate("C17", "resume", "resumed run = uninterrupted run (bit-exact)", format!("trajectories diverge at accepted tick {k} ({} vs {} accepted ticks)", res.step_hashes.len(), tw.step_hashes.len()));
                }
            } else {
                // JSON: parser rounding of one ulp per number is allowed; totals must agree to 1e-9
                if tw.accepted.len() != res.accepted.len() {
                    ctx.violate("C17", "resume", "resumed run = uninterrupted run (json, 1e-9)", format!("{} vs {} accepted ticks", res.accepted.len(), tw.accepted.len()));
                } else {
                    for (a, b) in tw.sys.locos().iter().zip(res.sys.locos()) {
                        if !close(a.state.energy_out.value, b.state.energy_out.value, 1e-9, 1e-6, 1.0) {
                            ctx.violate("C17", "resume", "resumed run = uninterrupted run (json, 1e-9)", format!("energy_out {:e} vs {:e}", b.state.energy_out.value, a.state.energy_out.value));
                        }
                    }
                }
            }
            ctx.hit("stat.twin_compared");
        }
    }

    // shipped driver: LocomotiveSimulation::walk / ConsistSimulation::walk over the accepted demands must
    // reproduce the simulator-driven trajectory bit for bit (pins the tick protocol to the real loops)
    if case.shipped_walk && !has_crash && !res.accepted.is_empty() {
        let only_on = res.accepted.iter().all(|x| x.2 != Some(false));
        let no_interval_ops = !case.ops.iter().any(|o| matches!(o, Op::SetSaveInterval(_)));
        if no_interval_ops && (!case.as_consist || only_on) {
            ctx.layer = "pt.shipped_walk";
            let mut t = 0.0;
            let mut time = vec![0.0];
            let mut pwr = vec![0.0];
            let mut eng = vec![Some(true)];
            for (dt, p, e) in &res.accepted {
                t += dt;
                time.push(t);
                pwr.push(*p);
                eng.push(*e);
            }
            let trace = PowerTrace::new(time, pwr, eng);
            let same = if case.as_consist {
                let mut sim = ConsistSimulation::new(build_consist(case), trace, case.save_interval);
                match sim.walk() {
                    Ok(()) => match &res.sys { Sys::Con(c) => sim.loco_con == **c, _ => false },
                    Err(e) => {
                        ctx.violate("C01", "driver", "shipped ConsistSimulation::walk accepts the same trace", first_line(&e));
                        true
                    }
                }
            } else {
                let mut sim = LocomotiveSimulation::new(build_loco(&case.locos[0], case.save_interval), trace, case.save_interval);
                match sim.walk() {
                    Ok(()) => match &res.sys { Sys::Loco(l) => sim.loco_unit == **l, _ => false },
                    Err(e) => {
                        // LocomotiveSimulation additionally insists pwr_out == trace power (1e-8); a standalone
                        // unit whose regen limit clips is the only legitimate difference
                        ctx.hit_dyn(format!("note.shipped_walk_err: {}", first_line(&e)));
                        true
                    }
                }
            };
            ctx.hit("stat.shipped_walk_compared");
            if !same {
                ctx.violate("C01", "driver", "shipped walk() = simulator-driven ticks (bit-exact)", "final objects differ".into());
            }
        }
    }
}

/// candidate simplifications for the minimiser, most aggressive first
pub fn shrink(case: &Case) -> Vec<Case> {
    let mut out = vec![];
    let n = case.ops.len();
    // drop chunks of ops
    let mut chunk = n / 2;
    while chunk >= 1 {
        let mut start = 0;
        while start < n {
            let mut c = case.clone();
            let end = (start + chunk).min(n);
            c.ops.drain(start..end);
            if !c.ops.is_empty() {
                out.push(c);
            }
            start += chunk;
        }
        if chunk == 1 {
            break;
        }
        chunk /= 2;
    }
    // fewer units
    if case.locos.len() > 1 {
        for k in 0..case.locos.len() {
            let mut c = case.clone();
            c.locos.remove(k);
            out.push(c);
        }
    }
    // simpler ops
    for (k, op) in case.ops.iter().enumerate() {
        if let Op::Tick { dt, demand, engine_on } = op {
            if *dt != 1.0 {
                let mut c = case.clone();
                c.ops[k] = Op::Tick { dt: 1.0, demand: *demand, engine_on: *engine_on };
                out.push(c);
            }
            if *engine_on != Some(true) {
                let mut c = case.clone();
                c.ops[k] = Op::Tick { dt: *dt, demand: *demand, engine_on: Some(true) };
                out.push(c);
            }
            if !matches!(demand, Demand::MaxTimes(x) if *x == 0.5) {
                let mut c = case.clone();
                c.ops[k] = Op::Tick { dt: *dt, demand: Demand::MaxTimes(0.5), engine_on: *engine_on };
                out.push(c);
            }
        }
    }
    // shipped maps
    for k in 0..case.locos.len() {
        let mut c = case.clone();
        let l = &mut c.locos[k];
        let mut changed = false;
        match &mut l.kind {
            KindSpec::Conv { fc, gen, edrv } => {
                for m in [&mut fc.map, &mut gen.map, &mut edrv.map] {
                    if !m.frac.is_empty() {
                        *m = MapSpec::default();
                        changed = true;
                    }
                }
            }
            KindSpec::Bel { res, edrv } => {
                if !edrv.map.frac.is_empty() {
                    edrv.map = MapSpec::default();
                    changed = true;
                }
                if res.grid.is_some() {
                    res.grid = None;
                    changed = true;
                }
            }
            KindSpec::Hybrid => {}
        }
        if changed {
            out.push(c);
        }
    }
    if case.shipped_walk {
        let mut c = case.clone();
        c.shipped_walk = false;
        out.push(c);
    }
    out
}
