//! Seam N2: std's `RandomState` takes its keys from `getrandom(2)` once per thread.  std resolves
//! `getrandom` as a weak symbol, so defining it in the binary puts hash-map iteration order under
//! the simulator's control: the keys become a pure function of a per-thread seed.  Every simulated
//! run executes on a fresh thread whose seed is part of the run's case.

use std::cell::Cell;
use std::sync::atomic::{AtomicU64, Ordering};

thread_local! {
    static SEED: Cell<u64> = const { Cell::new(0) };
    static CALLS: Cell<u64> = const { Cell::new(0) };
}
/// number of times the interposed symbol was called (start-up self-test + evidence)
pub static INTERPOSED_CALLS: AtomicU64 = AtomicU64::new(0);

pub fn set_thread_seed(seed: u64) {
    SEED.with(|s| s.set(seed));
    CALLS.with(|c| c.set(0));
}

#[no_mangle]
pub unsafe extern "C" fn getrandom(buf: *mut u8, len: usize, _flags: u32) -> isize {
    INTERPOSED_CALLS.fetch_add(1, Ordering::Relaxed);
    let seed = SEED.try_with(|s| s.get()).unwrap_or(0);
    let n = CALLS
        .try_with(|c| {
            let v = c.get();
            c.set(v + 1);
            v
        })
        .unwrap_or(0);
    let mut s = seed ^ 0x9E3779B97F4A7C15u64.wrapping_mul(1 + n);
    if s == 0 {
        s = 0x1234_5678_9abc_def1;
    }
    for i in 0..len {
        s ^= s << 13;
        s ^= s >> 7;
        s ^= s << 17;
        *buf.add(i) = (s >> 32) as u8;
    }
    len as isize
}

/// iteration order of a small std HashMap on a fresh thread with the given seed
pub fn probe_order(seed: u64) -> Vec<u32> {
    std::thread::spawn(move || {
        set_thread_seed(seed);
        let mut m = std::collections::HashMap::new();
        for k in 0..16u32 {
            m.insert(format!("k{k}"), k);
        }
        m.values().copied().collect::<Vec<u32>>()
    })
    .join()
    .unwrap()
}

/// start-up self test: two seeds give two orders, one seed gives one order
pub fn selftest() -> bool {
    let a1 = probe_order(11);
    let a2 = probe_order(11);
    let b = probe_order(12);
    let c = probe_order(13);
    a1 == a2 && (a1 != b || a1 != c)
}
