//! One integer decides everything: splitmix64 seeding + xoshiro256** stream per simulated run.

#[inline]
pub fn splitmix64(x: &mut u64) -> u64 {
    *x = x.wrapping_add(0x9E3779B97F4A7C15);
    let mut z = *x;
    z = (z ^ (z >> 30)).wrapping_mul(0xBF58476D1CE4E5B9);
    z = (z ^ (z >> 27)).wrapping_mul(0x94D049BB133111EB);
    z ^ (z >> 31)
}

/// FNV-1a over bytes, used for property-name mixing and trace hashes (no std RandomState anywhere).
pub fn fnv(bytes: &[u8]) -> u64 {
    let mut h: u64 = 0xcbf29ce484222325;
    for b in bytes {
        h ^= *b as u64;
        h = h.wrapping_mul(0x100000001b3);
    }
    h
}

pub fn run_seed(verif_seed: u64, prop: &str, run: u64) -> u64 {
    let mut s = verif_seed ^ fnv(prop.as_bytes()).rotate_left(17) ^ run.wrapping_mul(0xD1342543DE82EF95);
    let a = splitmix64(&mut s);
    let b = splitmix64(&mut s);
    a ^ b.rotate_left(32)
}

#[derive(Clone, Debug)]
pub struct Rng {
    s: [u64; 4],
}

impl Rng {
    pub fn new(seed: u64) -> Self {
        let mut x = seed;
        let s = [splitmix64(&mut x), splitmix64(&mut x), splitmix64(&mut x), splitmix64(&mut x)];
        Rng { s }
    }
    #[inline]
    pub fn next(&mut self) -> u64 {
        let r = self.s[1].wrapping_mul(5).rotate_left(7).wrapping_mul(9);
        let t = self.s[1] << 17;
        self.s[2] ^= self.s[0];
        self.s[3] ^= self.s[1];
        self.s[1] ^= self.s[2];
        self.s[0] ^= self.s[3];
        self.s[2] ^= t;
        self.s[3] = self.s[3].rotate_left(45);
        r
    }
    /// uniform in [0,1)
    #[inline]
    pub fn f(&mut self) -> f64 {
        (self.next() >> 11) as f64 / (1u64 << 53) as f64
    }
    #[inline]
    pub fn range(&mut self, lo: f64, hi: f64) -> f64 {
        lo + (hi - lo) * self.f()
    }
    /// log-uniform in [lo,hi]
    pub fn lrange(&mut self, lo: f64, hi: f64) -> f64 {
        (lo.ln() + (hi.ln() - lo.ln()) * self.f()).exp()
    }
    #[inline]
    pub fn below(&mut self, n: u64) -> u64 {
        if n == 0 {
            0
        } else {
            self.next() % n
        }
    }
    /// integer in [lo, hi] inclusive
    pub fn int(&mut self, lo: i64, hi: i64) -> i64 {
        lo + self.below((hi - lo + 1) as u64) as i64
    }
    pub fn usize(&mut self, lo: usize, hi: usize) -> usize {
        lo + self.below((hi - lo + 1) as u64) as usize
    }
    pub fn chance(&mut self, p: f64) -> bool {
        self.f() < p
    }
    pub fn pick<'a, T>(&mut self, xs: &'a [T]) -> &'a T {
        &xs[self.below(xs.len() as u64) as usize]
    }
    /// weighted index
    pub fn weighted(&mut self, w: &[f64]) -> usize {
        let tot: f64 = w.iter().sum();
        let mut x = self.f() * tot;
        for (i, wi) in w.iter().enumerate() {
            if x < *wi {
                return i;
            }
            x -= wi;
        }
        w.len() - 1
    }
    /// a number rounded to `digits` significant decimal digits (readable replay files, shrink-friendly)
    pub fn round_sig(x: f64, digits: i32) -> f64 {
        if x == 0.0 || !x.is_finite() {
            return x;
        }
        let mag = x.abs().log10().floor() as i32;
        let p = 10f64.powi(digits - 1 - mag);
        (x * p).round() / p
    }
    pub fn fork(&mut self) -> Rng {
        Rng::new(self.next())
    }
}

/// incremental trace hasher (order-sensitive), fed with observed state after every event
#[derive(Clone, Copy, Debug)]
pub struct Trace(pub u64);
impl Default for Trace {
    fn default() -> Self {
        Trace(0xcbf29ce484222325)
    }
}
impl Trace {
    #[inline]
    pub fn u(&mut self, x: u64) {
        self.0 = (self.0 ^ x).wrapping_mul(0x100000001b3).rotate_left(29);
    }
    #[inline]
    pub fn f(&mut self, x: f64) {
        self.u(x.to_bits())
    }
    pub fn s(&mut self, x: &str) {
        self.u(fnv(x.as_bytes()))
    }
    pub fn bytes(&mut self, x: &[u8]) {
        self.u(fnv(x))
    }
}
