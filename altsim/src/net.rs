//! Network generator (corridors with passing sidings, flipped links, restrictions on a coarse grid,
//! elevation / heading profiles, catenary sections, lockouts) and the independent reference models
//! that read the *network* data: pointwise-minimum speed profile, elevation walk, curve resistance.

use crate::rng::Rng;
use altrios_core::track::*;
use altrios_core::uc;
use std::collections::HashMap;

#[derive(Clone, Debug)]
pub struct NetOpts {
    pub n_sidings: usize,
    pub grade_bound: f64,
    /// max number of extra restrictions per link (besides the whole-link base limit)
    pub max_restr: usize,
    /// restriction bounds are multiples of this (so that bounds coincide, nest, abut, duplicate)
    pub grid: f64,
    pub main_len: (f64, f64),
    pub siding_len: (f64, f64),
    pub headings: bool,
    pub cat: bool,
    pub lockouts: bool,
    /// use the `speed_sets` map (by train type) instead of the single `speed_set`
    pub by_type: bool,
    pub params: bool,
    pub base_speed: (f64, f64),
    pub tail_end_only: bool,
    /// every grade in the forward direction is a downgrade (or level): a long descent that steepens and eases
    pub descending: bool,
}

impl NetOpts {
    pub fn small(rng: &mut Rng) -> Self {
        NetOpts {
            n_sidings: rng.usize(0, 3),
            grade_bound: 0.01,
            max_restr: rng.usize(0, 6),
            grid: 10.0,
            main_len: (50.0, 2000.0),
            siding_len: (50.0, 800.0),
            headings: rng.chance(0.6),
            cat: rng.chance(0.4),
            lockouts: rng.chance(0.2),
            by_type: rng.chance(0.3),
            params: rng.chance(0.3),
            base_speed: (6.0, 30.0),
            tail_end_only: false,
            descending: false,
        }
    }
}

pub fn n_fwd(n_sidings: usize) -> usize {
    1 + 3 * n_sidings
}
pub fn flip_of(i: usize, n_sidings: usize) -> usize {
    2 * n_fwd(n_sidings) + 1 - i
}
/// forward route main_0, (A|B)_0, main_1, ... ; `choice` bit s selects siding B
pub fn fwd_route(n_sidings: usize, choice: u64) -> Vec<usize> {
    let mut r = vec![1usize];
    for s in 0..n_sidings {
        let m = 1 + 3 * s;
        r.push(m + 1 + ((choice >> s) & 1) as usize);
        r.push(m + 3);
    }
    r
}
pub fn rev_route(n_sidings: usize, choice: u64) -> Vec<usize> {
    fwd_route(n_sidings, choice).iter().rev().map(|i| flip_of(*i, n_sidings)).collect()
}

fn snap(x: f64, grid: f64) -> f64 {
    (x / grid).round() * grid
}

#[derive(Clone, Debug)]
struct LinkGeo {
    len: f64,
    prev: Vec<usize>,
    next: Vec<usize>,
    elevs: Vec<(f64, f64)>,
    headings: Vec<(f64, f64)>,
    limits: Vec<(f64, f64, f64)>,
    head_end: bool,
    params: Vec<SpeedParam>,
    cat: Vec<(f64, f64, f64)>,
}

fn mk_link(idx: usize, flip: usize, g: &LinkGeo, by_type: bool) -> Link {
    let mut sl: Vec<SpeedLimit> = g.limits.iter().map(|(a, b, s)| SpeedLimit { offset_start: *a * uc::M, offset_end: *b * uc::M, speed: *s * uc::MPS }).collect();
    sl.sort_by(|a, b| a.partial_cmp(b).unwrap());
    sl.dedup_by(|a, b| a.offset_start == b.offset_start && a.offset_end == b.offset_end);
    let ss = SpeedSet { speed_limits: sl, speed_params: g.params.clone(), is_head_end: g.head_end };
    let (speed_sets, speed_set) = if by_type {
        let mut m = HashMap::new();
        m.insert(TrainType::Freight, ss.clone());
        // other train types get their own (more permissive) set: must never leak into a freight path
        let mut other = ss.clone();
        for l in other.speed_limits.iter_mut() {
            l.speed = l.speed * 2.0;
        }
        m.insert(TrainType::Passenger, other);
        // a third, distinct set (and not merely more permissive: half of its limits are below the freight ones)
        let mut im = ss.clone();
        for (k, l) in im.speed_limits.iter_mut().enumerate() {
            l.speed = l.speed * if k % 2 == 0 { 1.5 } else { 0.5 };
        }
        m.insert(TrainType::Intermodal, im);
        (m, None)
    } else {
        (HashMap::new(), Some(ss))
    };
    Link {
        idx_curr: LinkIdx::new(idx as u32),
        idx_flip: LinkIdx::new(flip as u32),
        idx_next: LinkIdx::new(*g.next.first().unwrap_or(&0) as u32),
        idx_next_alt: LinkIdx::new(*g.next.get(1).unwrap_or(&0) as u32),
        idx_prev: LinkIdx::new(*g.prev.first().unwrap_or(&0) as u32),
        idx_prev_alt: LinkIdx::new(*g.prev.get(1).unwrap_or(&0) as u32),
        osm_id: None,
        length: g.len * uc::M,
        elevs: g.elevs.iter().map(|(o, e)| Elev { offset: *o * uc::M, elev: *e * uc::M }).collect(),
        headings: g.headings.iter().map(|(o, h)| Heading { offset: *o * uc::M, heading: *h * uc::RAD, lat: None, lon: None }).collect(),
        speed_sets,
        speed_set,
        cat_power_limits: g.cat.iter().map(|(a, b, p)| CatPowerLimit { offset_start: *a * uc::M, offset_end: *b * uc::M, power_limit: *p * uc::W, district_id: None }).collect(),
        link_idxs_lockout: vec![],
    }
}

pub fn gen_network(rng: &mut Rng, o: &NetOpts) -> Vec<Link> {
    let ns = o.n_sidings;
    let nf = n_fwd(ns);
    let mut geos: Vec<LinkGeo> = vec![];
    let mut elev_end = vec![100.0; nf + 2];
    for s in 0..=ns {
        let m = 1 + 3 * s;
        let mut specs = vec![(m, snap(rng.range(o.main_len.0, o.main_len.1), o.grid).max(o.grid * 3.0), if s == 0 { vec![] } else { vec![m - 2, m - 1] }, if s == ns { vec![] } else { vec![m + 1, m + 2] })];
        if s < ns {
            let la = snap(rng.range(o.siding_len.0, o.siding_len.1), o.grid).max(o.grid * 3.0);
            let lb = if rng.chance(0.5) { la } else { snap(rng.range(o.siding_len.0, o.siding_len.1), o.grid).max(o.grid * 3.0) };
            specs.push((m + 1, la, vec![m], vec![m + 3]));
            specs.push((m + 2, lb, vec![m], vec![m + 3]));
        }
        for (i, len, prev, next) in specs {
            let start_elev = if prev.is_empty() { 100.0 } else { elev_end[prev[0]] };
            // elevation points
            let npts = rng.usize(2, 6);
            let mut offs: Vec<f64> = vec![0.0];
            for _ in 1..npts - 1 {
                offs.push(Rng::round_sig(rng.range(0.02, 0.98) * len, 5));
            }
            offs.push(len);
            offs.sort_by(|a, b| a.partial_cmp(b).unwrap());
            offs.dedup();
            let mut elevs = vec![(0.0, start_elev)];
            for k in 1..offs.len() {
                let g = if rng.chance(0.15) {
                    0.0
                } else if o.descending {
                    -rng.range(0.15, 1.0) * o.grade_bound
                } else {
                    rng.range(-o.grade_bound, o.grade_bound)
                };
                let e = elevs[k - 1].1 + g * (offs[k] - offs[k - 1]);
                elevs.push((offs[k], Rng::round_sig(e, 8)));
            }
            // sidings rejoin at the same elevation as their twin - without leaving the grade bound: the second
            // track's increments are scaled down to end where the first one ended, or, where that is not
            // possible, replaced by one uniform grade (which is within the bound unless the second track is the
            // shorter one; then the first track is re-levelled to what the second can reach)
            if prev.len() == 1 && next.len() == 1 && i == 1 + 3 * s + 2 {
                let target = elev_end[i - 1] - start_elev;
                let raw = elevs.last().unwrap().1 - start_elev;
                let f = if raw != 0.0 { target / raw } else { f64::INFINITY };
                if f.is_finite() && (0.0..=1.0).contains(&f) {
                    for e in elevs.iter_mut() {
                        e.1 = Rng::round_sig(start_elev + (e.1 - start_elev) * f, 8);
                    }
                } else {
                    let reach = o.grade_bound * len;
                    let t = target.clamp(-reach, reach);
                    if t != target {
                        // re-level the twin (already pushed as the previous geo): uniform grade to the reachable elevation
                        if let Some(tw) = geos.last_mut() {
                            let l = tw.len;
                            tw.elevs = vec![(0.0, start_elev), (l, Rng::round_sig(start_elev + t, 8))];
                            elev_end[i - 1] = tw.elevs[1].1;
                        }
                    }
                    elevs = vec![(0.0, start_elev), (len, elev_end[i - 1])];
                }
                let last = elevs.len() - 1;
                elevs[last].1 = elev_end[i - 1];
            }
            elev_end[i] = elevs.last().unwrap().1;
            // headings
            let headings = if o.headings && rng.chance(0.7) {
                let n = rng.usize(2, 5);
                let mut ho: Vec<f64> = vec![0.0];
                for _ in 1..n - 1 {
                    ho.push(Rng::round_sig(rng.range(0.05, 0.95) * len, 5));
                }
                ho.push(len);
                ho.sort_by(|a, b| a.partial_cmp(b).unwrap());
                ho.dedup();
                let mut h = rng.range(0.0, 6.28);
                ho.iter()
                    .map(|x| {
                        // gentle curves, occasionally sharp, wrap through 2*pi
                        h += if rng.chance(0.2) { rng.range(-0.5, 0.5) } else { rng.range(-0.03, 0.03) };
                        let hh = h.rem_euclid(2.0 * std::f64::consts::PI);
                        (*x, Rng::round_sig(hh, 7).min(6.283185))
                    })
                    .collect()
            } else {
                vec![]
            };
            // restrictions: whole-link base limit + extras on the grid
            let base = rng.usize(o.base_speed.0 as usize / 2, o.base_speed.1 as usize / 2) as f64 * 2.0;
            let mut limits = vec![(0.0, len, base)];
            let nr = rng.usize(0, o.max_restr);
            let cells = (len / o.grid) as u64;
            for _ in 0..nr {
                let a = rng.below(cells) as f64 * o.grid;
                let b = match rng.below(8) {
                    0 => a, // zero length
                    1 => len,
                    _ => a + (1 + rng.below(((len - a) / o.grid) as u64)) as f64 * o.grid,
                };
                let s = rng.usize(2, 14) as f64 * 2.0;
                limits.push((a, b.min(len), s));
            }
            let head_end = !o.tail_end_only && rng.chance(0.3);
            let params = if o.params && rng.chance(0.5) {
                let lt = *rng.pick(&[LimitType::MassTotal, LimitType::MassPerBrake, LimitType::AxleCount]);
                let ct = *rng.pick(&[CompareType::TpEqualRp, CompareType::TpGreaterThanRp, CompareType::TpLessThanRp, CompareType::TpGreaterThanEqualRp, CompareType::TpLessThanEqualRp]);
                let val = match lt {
                    LimitType::AxleCount => *rng.pick(&[100.0, 200.0, 400.0, 600.0]),
                    LimitType::MassTotal => *rng.pick(&[1.0e6, 5.0e6, 1.0e7, 2.0e7]),
                    _ => *rng.pick(&[5.0e4, 1.0e5, 1.3e5, 2.0e5]),
                };
                vec![SpeedParam { limit_val: val, limit_type: lt, compare_type: ct }]
            } else {
                vec![]
            };
            let cat = if o.cat && rng.chance(0.5) {
                let a = snap(rng.range(0.0, len * 0.4), o.grid);
                let b = snap(rng.range(len * 0.5, len), o.grid).max(a);
                if rng.chance(0.4) && b > a {
                    // two abutting sections
                    let mid = snap((a + b) / 2.0, o.grid);
                    // (a de-energised / neutral section - zero power - is a legal section like any other)
                    let p2 = if rng.chance(0.25) { 0.0 } else { Rng::round_sig(rng.range(1e6, 8e6), 3) };
                    vec![(a, mid, Rng::round_sig(rng.range(1e6, 8e6), 3)), (mid, b, p2)]
                } else {
                    vec![(a, b, if rng.chance(0.12) { 0.0 } else { Rng::round_sig(rng.range(1e6, 8e6), 3) })]
                }
            } else {
                vec![]
            };
            while geos.len() < i {
                geos.push(LinkGeo { len: 0.0, prev: vec![], next: vec![], elevs: vec![], headings: vec![], limits: vec![], head_end: false, params: vec![], cat: vec![] });
            }
            geos[i - 1] = LinkGeo { len, prev, next, elevs, headings, limits, head_end, params, cat };
        }
    }
    let mut links = vec![Link::default()];
    for (k, g) in geos.iter().enumerate() {
        links.push(mk_link(k + 1, flip_of(k + 1, ns), g, o.by_type));
    }
    for i in (1..=nf).rev() {
        let g = &geos[i - 1];
        let len = g.len;
        let mut relevs: Vec<(f64, f64)> = g.elevs.iter().rev().map(|(o, e)| (len - o, *e)).collect();
        relevs[0].0 = 0.0;
        let l = relevs.len();
        relevs[l - 1].0 = len;
        let mut rhead: Vec<(f64, f64)> = g.headings.iter().rev().map(|(o, h)| (len - o, (h + std::f64::consts::PI).rem_euclid(2.0 * std::f64::consts::PI).min(6.283185))).collect();
        if !rhead.is_empty() {
            rhead[0].0 = 0.0;
            let l = rhead.len();
            rhead[l - 1].0 = len;
        }
        let rl: Vec<(f64, f64, f64)> = g.limits.iter().map(|(a, b, s)| (len - b, len - a, *s)).collect();
        let mut rcat: Vec<(f64, f64, f64)> = g.cat.iter().map(|(a, b, p)| (len - b, len - a, *p)).collect();
        rcat.reverse();
        let fg = LinkGeo {
            len,
            prev: g.next.iter().map(|x| flip_of(*x, ns)).collect(),
            next: g.prev.iter().map(|x| flip_of(*x, ns)).collect(),
            elevs: relevs,
            headings: rhead,
            limits: rl,
            head_end: g.head_end,
            params: g.params.clone(),
            cat: rcat,
        };
        links.push(mk_link(flip_of(i, ns), i, &fg, o.by_type));
    }
    if o.lockouts && ns > 0 {
        // mutually exclusive sidings (e.g. a crossing): declared on both, and on their flips
        for s in 0..ns {
            if rng.chance(0.5) {
                let a = 1 + 3 * s + 1;
                let b = a + 1;
                for (x, y) in [(a, b), (b, a)] {
                    links[x].link_idxs_lockout.push(LinkIdx::new(y as u32));
                    links[x].link_idxs_lockout.push(LinkIdx::new(flip_of(y, ns) as u32));
                    let fx = flip_of(x, ns);
                    links[fx].link_idxs_lockout.push(LinkIdx::new(y as u32));
                    links[fx].link_idxs_lockout.push(LinkIdx::new(flip_of(y, ns) as u32));
                }
            }
        }
    }
    links
}

/// Content of `l` on [a, b] (offsets re-based to a). Headings are dropped (a split link is straight).
fn sub_link(l: &Link, a: f64, b: f64) -> Link {
    let mut out = l.clone();
    out.length = (b - a) * uc::M;
    let at = |x: f64| -> f64 {
        let e = &l.elevs;
        for w in e.windows(2) {
            let (x0, x1) = (w[0].offset.value, w[1].offset.value);
            if x >= x0 && x <= x1 {
                return if x1 > x0 { w[0].elev.value + (w[1].elev.value - w[0].elev.value) * (x - x0) / (x1 - x0) } else { w[0].elev.value };
            }
        }
        e.last().map(|p| p.elev.value).unwrap_or(0.0)
    };
    let mut elevs = vec![Elev { offset: 0.0 * uc::M, elev: at(a) * uc::M }];
    for p in &l.elevs {
        if p.offset.value > a && p.offset.value < b {
            elevs.push(Elev { offset: (p.offset.value - a) * uc::M, elev: p.elev });
        }
    }
    elevs.push(Elev { offset: (b - a) * uc::M, elev: at(b) * uc::M });
    out.elevs = elevs;
    out.headings = vec![];
    let cut_set = |ss: &SpeedSet| -> SpeedSet {
        let mut o = ss.clone();
        o.speed_limits = ss
            .speed_limits
            .iter()
            .filter(|r| r.offset_end.value > a && r.offset_start.value < b)
            .map(|r| SpeedLimit { offset_start: (r.offset_start.value.max(a) - a) * uc::M, offset_end: (r.offset_end.value.min(b) - a) * uc::M, speed: r.speed })
            .collect();
        // clipping can make two restrictions cover the same stretch: keep the tighter one (the pointwise minimum is
        // what counts) and the order validation asks for
        o.speed_limits.sort_by(|x, y| x.partial_cmp(y).unwrap_or(std::cmp::Ordering::Equal));
        let mut kept: Vec<SpeedLimit> = vec![];
        for r in o.speed_limits.drain(..) {
            match kept.iter_mut().find(|k| k.offset_start == r.offset_start && k.offset_end == r.offset_end) {
                Some(k) => {
                    if r.speed < k.speed {
                        k.speed = r.speed;
                    }
                }
                None => kept.push(r),
            }
        }
        kept.sort_by(|x, y| x.partial_cmp(y).unwrap_or(std::cmp::Ordering::Equal));
        o.speed_limits = kept;
        o
    };
    out.speed_set = l.speed_set.as_ref().map(cut_set);
    out.speed_sets = l.speed_sets.iter().map(|(k, v)| (*k, cut_set(v))).collect();
    out.cat_power_limits = l
        .cat_power_limits
        .iter()
        .filter(|r| r.offset_end.value > a && r.offset_start.value < b)
        .map(|r| CatPowerLimit { offset_start: (r.offset_start.value.max(a) - a) * uc::M, offset_end: (r.offset_end.value.min(b) - a) * uc::M, power_limit: r.power_limit, district_id: r.district_id.clone() })
        .collect();
    out
}

/// Splits forward link `i` at offset `x` into `i` = [0, x] and a new link [x, L] (and its flip accordingly);
/// returns the index of the new forward link. Connectivity, flips and lockout declarations stay consistent.
/// The dispatcher lets a train wait only where it arrives on a link that leads into a converging switch, so
/// a siding made of one link can never hold a train clear of the main (see DESIGN, world dsp).
pub fn split_link(links: &mut Vec<Link>, i: usize, x: f64) -> usize {
    let len = links[i].length.value;
    assert!(x > 0.0 && x < len);
    let f = links[i].idx_flip.idx();
    let (j, g) = (links.len(), links.len() + 1);
    let li = links[i].clone();
    let lf = links[f].clone();
    let id = |k: usize| LinkIdx::new(k as u32);
    // forward: i = [0, x], j = [x, L]
    let mut a = sub_link(&li, 0.0, x);
    let mut b = sub_link(&li, x, len);
    a.idx_next = id(j);
    a.idx_next_alt = id(0);
    b.idx_curr = id(j);
    b.idx_flip = id(g);
    b.idx_prev = id(i);
    b.idx_prev_alt = id(0);
    // reverse: g = [0, L - x] (new, travelled first), f = [L - x, L]
    let mut c = sub_link(&lf, 0.0, len - x);
    let mut d = sub_link(&lf, len - x, len);
    c.idx_curr = id(g);
    c.idx_flip = id(j);
    c.idx_next = id(f);
    c.idx_next_alt = id(0);
    d.idx_prev = id(g);
    d.idx_prev_alt = id(0);
    links[i] = a;
    links[f] = d;
    links.push(b);
    links.push(c);
    for s in [li.idx_next.idx(), li.idx_next_alt.idx()] {
        if s != 0 {
            if links[s].idx_prev.idx() == i {
                links[s].idx_prev = id(j);
            }
            if links[s].idx_prev_alt.idx() == i {
                links[s].idx_prev_alt = id(j);
            }
        }
    }
    for p in [lf.idx_prev.idx(), lf.idx_prev_alt.idx()] {
        if p != 0 {
            if links[p].idx_next.idx() == f {
                links[p].idx_next = id(g);
            }
            if links[p].idx_next_alt.idx() == f {
                links[p].idx_next_alt = id(g);
            }
        }
    }
    // whoever declares i (f) as mutually exclusive declares the new pieces too
    for k in 1..links.len() {
        let lo = &mut links[k].link_idxs_lockout;
        if lo.iter().any(|q| q.idx() == i) && !lo.iter().any(|q| q.idx() == j) {
            lo.push(id(j));
        }
        if lo.iter().any(|q| q.idx() == f) && !lo.iter().any(|q| q.idx() == g) {
            lo.push(id(g));
        }
    }
    j
}

// ------------------------------------------------------------------------------------------------
// Reference models over the network's own data
// ------------------------------------------------------------------------------------------------

#[derive(Clone, Debug)]
pub struct TrainRefParams {
    pub length: f64,
    pub speed_max: f64,
    pub towed_mass_static: f64,
    pub mass_per_brake: f64,
    pub axle_count: u32,
    pub train_type: TrainType,
}

fn cmp_applies<T: PartialOrd + PartialEq>(ct: CompareType, tp: T, rp: T) -> bool {
    match ct {
        CompareType::TpEqualRp => tp == rp,
        CompareType::TpGreaterThanRp => tp > rp,
        CompareType::TpLessThanRp => tp < rp,
        CompareType::TpGreaterThanEqualRp => tp >= rp,
        CompareType::TpLessThanEqualRp => tp <= rp,
    }
}

/// does the link's applicable restriction set apply to this train (documented compare types)?
pub fn set_for_train<'a>(link: &'a Link, t: &TrainRefParams) -> Option<&'a SpeedSet> {
    let ss = match &link.speed_set {
        Some(s) => Some(s),
        None => link.speed_sets.get(&t.train_type),
    }?;
    for p in &ss.speed_params {
        let ok = match p.limit_type {
            LimitType::MassTotal => cmp_applies(p.compare_type, t.towed_mass_static, p.limit_val),
            LimitType::MassPerBrake => cmp_applies(p.compare_type, t.mass_per_brake, p.limit_val),
            LimitType::AxleCount => cmp_applies(p.compare_type, t.axle_count, p.limit_val as u32),
        };
        if !ok {
            return None;
        }
    }
    Some(ss)
}

/// absolute restrictions (start, end, speed) covering [start, end) along a route
pub fn route_restrictions(links: &[Link], route: &[usize], t: &TrainRefParams) -> Vec<(f64, f64, f64)> {
    let mut out = vec![];
    let mut base = 0.0f64;
    for &l in route {
        let link = &links[l];
        if let Some(ss) = set_for_train(link, t) {
            let add = if ss.is_head_end { 0.0 } else { t.length };
            for sl in &ss.speed_limits {
                out.push((sl.offset_start.value + base, sl.offset_end.value + base + add, sl.speed.value));
            }
        }
        base = link.length.value + base;
    }
    out
}

pub fn ref_limit(restr: &[(f64, f64, f64)], speed_max: f64, x: f64) -> f64 {
    let mut v = speed_max;
    for (a, b, s) in restr {
        if *a <= x && x < *b && *s < v {
            v = *s;
        }
    }
    v
}

pub fn enforced_limit(points: &[(f64, f64)], x: f64) -> f64 {
    let mut v = f64::NAN;
    for (o, s) in points {
        if *o <= x {
            v = *s;
        } else {
            break;
        }
    }
    v
}

/// elevation at path position x obtained by walking the route's own elevation points, continuing
/// each link from the running value
pub fn ref_elev(links: &[Link], route: &[usize], x: f64) -> f64 {
    let mut base = 0.0;
    let mut run = links[route[0]].elevs.first().map(|e| e.elev.value).unwrap_or(0.0);
    for (k, &l) in route.iter().enumerate() {
        let lk = &links[l];
        let len = lk.length.value;
        let last = k + 1 == route.len();
        if x <= base + len || last {
            if lk.elevs.is_empty() {
                return run;
            }
            let e0 = lk.elevs[0].elev.value;
            let xo = x - base;
            let n = lk.elevs.len();
            for (j, w) in lk.elevs.windows(2).enumerate() {
                if xo <= w[1].offset.value || j + 2 == n {
                    let t = (xo - w[0].offset.value) / (w[1].offset.value - w[0].offset.value);
                    return run + (w[0].elev.value - e0) + t * (w[1].elev.value - w[0].elev.value);
                }
            }
        }
        if !lk.elevs.is_empty() {
            run += lk.elevs.last().unwrap().elev.value - lk.elevs[0].elev.value;
        }
        base += len;
    }
    f64::NAN
}

/// documented three-branch curve resistance coefficient for a heading change `dh` over `length`
pub fn ref_curve_coeff(h0: f64, h1: f64, length: f64, c0: f64, c1: f64, c2: f64) -> f64 {
    // heading change = the smaller angle between the two headings (independent of the code's own expression:
    // 350 deg -> 10 deg is a change of 20 deg, whichever way the values wrap)
    let two_pi = 2.0 * std::f64::consts::PI;
    let d = (h1 - h0).rem_euclid(two_pi);
    let dh = if d > std::f64::consts::PI { two_pi - d } else { d };
    let curvature = dh / length; // rad/m
    let one_degree = (std::f64::consts::PI / 180.0) / (100.0 * 0.3048);
    if curvature < one_degree {
        c0 * curvature
    } else {
        c0 * one_degree + c1 * (curvature - one_degree) + c2 * (curvature - one_degree) * (curvature - one_degree)
    }
}

/// cumulative curve resistance (in the code's unit: coefficient x metres) at path position x
pub fn ref_curve_net(links: &[Link], route: &[usize], x: f64, c: (f64, f64, f64)) -> f64 {
    let mut base = 0.0;
    let mut run = 0.0;
    for (k, &l) in route.iter().enumerate() {
        let lk = &links[l];
        let len = lk.length.value;
        let last = k + 1 == route.len();
        let inside = x <= base + len || last;
        if lk.headings.is_empty() {
            if inside {
                return run;
            }
        } else {
            let n = lk.headings.len();
            for (j, w) in lk.headings.windows(2).enumerate() {
                let seg = w[1].offset.value - w[0].offset.value;
                let coeff = ref_curve_coeff(w[0].heading.value, w[1].heading.value, seg, c.0, c.1, c.2);
                let xo = x - base;
                if inside && (xo <= w[1].offset.value || j + 2 == n) {
                    return run + coeff * (xo - w[0].offset.value);
                }
                run += coeff * seg;
            }
        }
        base += len;
    }
    f64::NAN
}
