//! World `cmp` (a powertrain component driven alone; C09, and the component clauses of C01 / C08).
//! The locomotive models never pass charge / discharge buffers to the battery, so the buffered SOC window
//! (C09 quantifies over "buffers") is only reachable by driving `ReversibleEnergyStorage` directly - the way a
//! user of the component API (or the Python layer) does. Same closed-loop adversary as in `pt`: every tick the
//! driver publishes the limits with the run's buffers, reads them, and asks for a multiple of the limit just
//! published; crash/restore between ticks; rejected ticks are restored from the pre-tick copy.

use crate::core::*;
use crate::pt;
use crate::rng::Rng;
use crate::ser::{self, Chan, Fmt};
use altrios_core::consist::locomotive::powertrain::reversible_energy_storage::ReversibleEnergyStorage;
use altrios_core::uc;
use serde::{Deserialize, Serialize};

#[derive(Serialize, Deserialize, Clone, Debug, PartialEq)]
pub enum Demand {
    /// f x the propulsion limit just published (pwr_prop_out_max)
    DischTimes(f64),
    /// -f x the regeneration limit just published (pwr_regen_out_max)
    ChargeTimes(f64),
    Zero,
}

#[derive(Serialize, Deserialize, Clone, Debug)]
pub enum Op {
    Tick { dt: f64, demand: Demand },
    Crash { fmt: Fmt, chan: Chan },
}

#[derive(Serialize, Deserialize, Clone, Debug)]
pub struct Case {
    pub res: pt::ResSpec,
    /// auxiliary load served by the battery [W]
    pub aux: f64,
    /// buffers as a fraction of the energy capacity (0 = None is passed)
    pub charge_buffer: f64,
    pub disch_buffer: f64,
    pub save_interval: Option<usize>,
    pub ops: Vec<Op>,
    pub hash_seed: u64,
}

fn r3(x: f64) -> f64 {
    Rng::round_sig(x, 3)
}

pub fn generate(rng: &mut Rng, _focus: &str, thorough: bool) -> Case {
    let spec = pt::gen_loco(rng, true);
    let mut res = match spec.kind {
        pt::KindSpec::Bel { res, .. } => res,
        _ => unreachable!("gen_loco(bel = true) yields a battery unit"),
    };
    let lo_w = res.lo_ramp.map(|x| x - res.min_soc).unwrap_or(0.05);
    let hi_w = res.hi_ramp.map(|x| res.max_soc - x).unwrap_or(0.05);
    let window = res.max_soc - res.min_soc;
    // buffers: none, small, comparable to a derating ramp, a good part of the window (never the whole of it)
    let gen_buf = |rng: &mut Rng| -> f64 {
        match rng.below(5) {
            0 => 0.0,
            1 => r3(rng.range(0.001, 0.01)),
            2 => r3(rng.range(0.3, 1.5) * lo_w.min(hi_w)),
            _ => r3(rng.range(0.02, 0.35) * window),
        }
    };
    let (mut cb, mut db) = (gen_buf(rng), gen_buf(rng));
    if cb + db + lo_w + hi_w > 0.9 * window {
        let f = 0.9 * window / (cb + db + lo_w + hi_w);
        cb = r3(cb * f * 0.5);
        db = r3(db * f * 0.5);
    }
    // start anywhere in the configured window, with a bias towards the (buffered) ramps and limits
    res.soc0 = match rng.below(8) {
        0 => res.min_soc,
        1 => res.max_soc,
        2 => res.min_soc + cb + lo_w * rng.f(),
        3 => res.max_soc - db - hi_w * rng.f(),
        4 => res.min_soc + cb,
        5 => res.max_soc - db,
        _ => rng.range(res.min_soc, res.max_soc),
    }
    .clamp(res.min_soc, res.max_soc);
    res.soc0 = Rng::round_sig(res.soc0, 6).clamp(res.min_soc, res.max_soc);
    let aux = if rng.chance(0.2) { 0.0 } else { r3(res.p_max * rng.range(0.0005, 0.03)) };
    let dmax = pt::dt_max(&[pt::LocoSpec { kind: pt::KindSpec::Bel { res: res.clone(), edrv: pt::EmSpec { p_max: res.p_max, map: pt::MapSpec::default() } }, aux_offset: 0.0, aux_coeff: 0.0 }]);
    let n_ticks = if thorough { rng.usize(20, 400) } else { rng.usize(20, 200) };
    let p_crash = if rng.chance(0.5) { 0.0 } else { *rng.pick(&[0.01, 0.03]) };
    let p_reject = if rng.chance(0.4) { 0.0 } else { 0.04 };
    let dir_bias = rng.f();
    let mut ops = vec![];
    let mut ride: (usize, bool) = (0, true);
    for _ in 0..n_ticks {
        if rng.chance(p_crash) {
            let fmt = *rng.pick(&[Fmt::Yaml, Fmt::Yaml, Fmt::Bin, Fmt::Json]);
            let chan = if rng.chance(0.3) { Chan::Reader { seed: rng.next() } } else { Chan::Str };
            ops.push(Op::Crash { fmt, chan });
        }
        // dyadic steps up to the derating bound (DESIGN C09)
        let k = match rng.below(6) {
            0 => 64,
            1 | 2 => ((dmax * 64.0) as i64).max(4),
            3 => rng.int(4, ((dmax * 64.0) as i64).max(5)),
            _ => rng.int(32, 128),
        };
        let dt = (k as f64 / 64.0).min(((dmax * 64.0).floor() / 64.0).max(4.0 / 64.0));
        let demand = if rng.chance(p_reject) {
            if rng.chance(0.5) { Demand::DischTimes(r3(rng.range(1.05, 1.5))) } else { Demand::ChargeTimes(r3(rng.range(1.05, 1.5))) }
        } else if ride.0 > 0 {
            ride.0 -= 1;
            if ride.1 { Demand::DischTimes(1.0) } else { Demand::ChargeTimes(1.0) }
        } else {
            match rng.below(10) {
                0..=2 => {
                    ride = (rng.usize(3, 40), rng.chance(dir_bias));
                    if ride.1 { Demand::DischTimes(1.0) } else { Demand::ChargeTimes(1.0) }
                }
                3 => Demand::DischTimes(*rng.pick(&[1.0 - 1e-6, 1.0 + 1e-6, 0.999, 1.0 + 5e-4])),
                4 => Demand::ChargeTimes(*rng.pick(&[1.0 - 1e-6, 1.0 + 1e-6, 0.999, 1.0 + 5e-4])),
                5 | 6 => Demand::DischTimes(r3(rng.f())),
                7 | 8 => Demand::ChargeTimes(r3(rng.f())),
                _ => Demand::Zero,
            }
        };
        ops.push(Op::Tick { dt, demand });
    }
    Case { res, aux, charge_buffer: cb, disch_buffer: db, save_interval: *rng.pick(&[Some(1), Some(1), None, Some(3)]), ops, hash_seed: rng.next() }
}

const TOL: f64 = 1e-3;
const REL: f64 = 1e-9;

pub fn execute(case: &Case, ctx: &mut Ctx) {
    ctx.class.push(format!("cmp:res:cb{}:db{}:iv{:?}", (case.charge_buffer > 0.0) as u8, (case.disch_buffer > 0.0) as u8, case.save_interval.map(|x| x.min(3))));
    ctx.layer = "scenario-construction";
    let mut res: ReversibleEnergyStorage = pt::build_res(&case.res);
    res.save_interval = case.save_interval;
    let cap = res.energy_capacity.value;
    let rating = res.pwr_out_max.value;
    let (lo, hi) = (case.res.min_soc, case.res.max_soc);
    let cb = if case.charge_buffer > 0.0 { Some(case.charge_buffer * cap * uc::J) } else { None };
    let db = if case.disch_buffer > 0.0 { Some(case.disch_buffer * cap * uc::J) } else { None };
    if cb.is_some() || db.is_some() {
        ctx.hit("probe.cmp.res_buffers_in_use");
    }
    let aux = case.aux;
    let soc0 = res.state.soc.value;
    let (mut e_chem, mut e_elec, mut e_prop, mut e_aux, mut e_loss) = (0.0f64, 0.0f64, 0.0f64, 0.0f64, 0.0f64);
    let mut prev_loss = 0.0f64;
    let mut accepted = 0u64;
    ctx.layer = "cmp.tick";
    for (k, op) in case.ops.iter().enumerate() {
        ctx.event = k;
        match op {
            Op::Crash { fmt, chan } => match ser::crash_restore(&res, *fmt, *chan, ctx) {
                Ok((r, _)) => res = r,
                Err(e) => {
                    ctx.violate("C17", "roundtrip", "yaml reload of a state reached by simulation", format!("ReversibleEnergyStorage after {accepted} accepted ticks: {e}"));
                    return;
                }
            },
            Op::Tick { dt, demand } => {
                let dt = *dt;
                let before = res.clone();
                if let Err(e) = res.set_cur_pwr_out_max(aux * uc::W, cb, db) {
                    ctx.hit_dyn(format!("note.cmp.publish_err: {}", format!("{e:#}").lines().last().unwrap_or("").chars().take(80).collect::<String>()));
                    res = before;
                    continue;
                }
                let st = res.state;
                // C09: published limits never negative beyond auxiliary load, never above the rating
                let c09 = |ctx: &mut Ctx, clause: &str, ok: bool, d: String| {
                    if !ok {
                        ctx.violate("C09", "limits", clause, format!("battery alone: {d}"));
                    }
                };
                c09(ctx, "published.disch/charge in [0,rating]", st.pwr_disch_max.value >= -1e-6 && st.pwr_disch_max.value <= rating * (1.0 + 1e-12) && st.pwr_charge_max.value >= -1e-6 && st.pwr_charge_max.value <= rating * (1.0 + 1e-12), format!("disch {:e} charge {:e} rating {:e}", st.pwr_disch_max.value, st.pwr_charge_max.value, rating));
                c09(ctx, "published.prop_out_max in [-aux,rating]", st.pwr_prop_out_max.value >= -aux * (1.0 + 1e-12) - 1e-6 && st.pwr_prop_out_max.value <= rating * (1.0 + 1e-12), format!("prop_out_max {:e} aux {:e} rating {:e}", st.pwr_prop_out_max.value, aux, rating));
                let (pmax, rmax) = (st.pwr_prop_out_max.value, st.pwr_regen_out_max.value);
                // beyond the code's own acceptance tolerance (1e-3 at component limits) by a clear margin
                let clearly_over = |f: f64, limit: f64| f >= 1.05 && (f - 1.0) * limit > 5e-3 * rating + 1.0;
                let (p, over) = match demand {
                    Demand::DischTimes(f) => (f * pmax.max(0.0), clearly_over(*f, pmax.max(0.0))),
                    Demand::ChargeTimes(f) => (-f * rmax.max(0.0), clearly_over(*f, rmax.max(0.0))),
                    Demand::Zero => (0.0, false),
                };
                ctx.trace.f(p);
                match res.solve_energy_consumption(p * uc::W, aux * uc::W, dt * uc::S) {
                    Err(e) => {
                        ctx.hit("fault.tick.reject");
                        if format!("{e:#}").trim().is_empty() {
                            ctx.violate("C09", "limits", "rejection carries a message", "battery alone: empty error".into());
                        }
                        res = before;
                        continue;
                    }
                    Ok(()) => {
                        if over {
                            ctx.violate("C09", "limits", "over-limit request is rejected", format!("battery alone: demand {p:e} W accepted; published propulsion limit {pmax:e} W, regeneration limit {rmax:e} W, aux {aux:e} W"));
                        }
                    }
                }
                accepted += 1;
                ctx.hit("stat.ticks");
                ctx.sim_s += dt;
                let rs = res.state;
                ctx.trace.f(rs.soc.value);
                ctx.trace.f(rs.pwr_out_chemical.value);
                // C01: hand-offs and cumulative ledger of the component
                e_chem += rs.pwr_out_chemical.value * dt;
                e_elec += rs.pwr_out_electrical.value * dt;
                e_prop += rs.pwr_out_propulsion.value * dt;
                e_aux += rs.pwr_aux.value * dt;
                e_loss += rs.pwr_loss.value * dt;
                let pscale = rating.max(1.0);
                let mut c01 = |ctx: &mut Ctx, mon: &str, clause: &str, a: f64, b: f64, scale: f64| {
                    if !close(a, b, REL, 1e-6, scale * 1e-3) || !a.is_finite() {
                        ctx.violate("C01", mon, clause, format!("battery alone: {a:e} vs {b:e} (diff {:e})", a - b));
                    }
                };
                c01(ctx, "ledger.step", "res.chemical=electrical+/-loss", rs.pwr_out_chemical.value, rs.pwr_out_electrical.value + rs.pwr_loss.value, pscale);
                c01(ctx, "ledger.step", "res.electrical=propulsion+aux", rs.pwr_out_electrical.value, rs.pwr_out_propulsion.value + rs.pwr_aux.value, pscale);
                c01(ctx, "ledger.step", "res.propulsion=request", rs.pwr_out_propulsion.value, p, pscale);
                let es = e_chem.abs().max(e_elec.abs()).max(pscale);
                c01(ctx, "ledger.cumulative", "res.energy_out_chemical", rs.energy_out_chemical.value, e_chem, es);
                c01(ctx, "ledger.cumulative", "res.energy_out_electrical", rs.energy_out_electrical.value, e_elec, es);
                c01(ctx, "ledger.cumulative", "res.energy_out_propulsion", rs.energy_out_propulsion.value, e_prop, es);
                c01(ctx, "ledger.cumulative", "res.energy_aux", rs.energy_aux.value, e_aux, es);
                c01(ctx, "ledger.cumulative", "res.energy_loss", rs.energy_loss.value, e_loss, es);
                let soc_ref = soc0 - e_chem / cap;
                if !close(rs.soc.value, soc_ref, 1e-9, 1e-12, 1.0) {
                    ctx.violate("C01", "ledger.soc", "soc=soc0-energy_chemical/capacity", format!("battery alone: soc {:e} reference {:e} (diff {:e})", rs.soc.value, soc_ref, rs.soc.value - soc_ref));
                }
                // C08
                let tol_p = 1e-9 * pscale + 1e-6;
                let c08 = |ctx: &mut Ctx, clause: &str, ok: bool, d: String| {
                    if !ok {
                        ctx.violate("C08", "second_law", clause, format!("battery alone: {d}"));
                    }
                };
                c08(ctx, "res.loss>=0", rs.pwr_loss.value >= -tol_p, format!("pwr_loss {:e}", rs.pwr_loss.value));
                c08(ctx, "res.eta in (0,1]", rs.eta.value > 0.0 && rs.eta.value <= 1.0 + 1e-12, format!("eta {:e}", rs.eta.value));
                if rs.pwr_out_electrical.value >= 0.0 {
                    c08(ctx, "res.out<=in", rs.pwr_out_electrical.value <= rs.pwr_out_chemical.value * (1.0 + 1e-9) + tol_p, format!("elec {:e} chem {:e}", rs.pwr_out_electrical.value, rs.pwr_out_chemical.value));
                } else {
                    c08(ctx, "res.charge_out<=in", -rs.pwr_out_chemical.value <= -rs.pwr_out_electrical.value * (1.0 + 1e-9) + tol_p, format!("chem {:e} elec {:e}", rs.pwr_out_chemical.value, rs.pwr_out_electrical.value));
                }
                if rs.energy_loss.value < prev_loss - (1e-9 * prev_loss.abs() + 1e-6) {
                    ctx.violate("C08", "monotone", "res.energy_loss", format!("battery alone: energy_loss decreased from {prev_loss:e} to {:e}", rs.energy_loss.value));
                }
                prev_loss = rs.energy_loss.value;
                // C09: accepted step inside ratings, inside the limits published for this step, SOC inside the configured window
                c09(ctx, "res.|elec|<=rating", rs.pwr_out_electrical.value.abs() <= rating * (1.0 + TOL) + TOL, format!("battery power {:e} rating {:e}", rs.pwr_out_electrical.value, rating));
                c09(ctx, "res.elec<=published_disch_max", rs.pwr_out_electrical.value <= st.pwr_disch_max.value * (1.0 + TOL) + TOL, format!("battery power {:e} published discharge limit {:e}", rs.pwr_out_electrical.value, st.pwr_disch_max.value));
                c09(ctx, "res.elec>=-published_charge_max", -rs.pwr_out_electrical.value <= st.pwr_charge_max.value * (1.0 + TOL) + TOL, format!("battery power {:e} published charge limit {:e}", rs.pwr_out_electrical.value, st.pwr_charge_max.value));
                c09(ctx, "soc in window", rs.soc.value >= lo - 1e-9 && rs.soc.value <= hi + 1e-9, format!("soc {:.9} outside the configured window [{lo}, {hi}] (charge buffer {} , discharge buffer {} of capacity)", rs.soc.value, case.charge_buffer, case.disch_buffer));
                if rs.soc.value <= lo + case.charge_buffer + 1e-6 {
                    ctx.hit("probe.cmp.soc_at_buffered_min");
                }
                if rs.soc.value >= hi - case.disch_buffer - 1e-6 {
                    ctx.hit("probe.cmp.soc_at_buffered_max");
                }
                res.save_state();
                res.step();
                // C19 (component level): counter and history stay aligned
                let hl = res.history.len();
                match case.save_interval {
                    None if hl != 0 => ctx.violate("C19", "alignment", "saving disabled => empty", format!("battery alone: history has {hl} entries with save_interval None")),
                    Some(1) if hl as u64 != accepted => ctx.violate("C19", "alignment", "history length", format!("battery alone: {hl} history entries after {accepted} accepted ticks (interval 1)")),
                    _ => {}
                }
            }
        }
    }
    ctx.nontrivial = accepted >= 5;
}

pub fn shrink(case: &Case) -> Vec<Case> {
    let mut out = vec![];
    let n = case.ops.len();
    if n > 1 {
        for (a, b) in [(n / 2, n), (0, n / 2)] {
            let mut c = case.clone();
            c.ops.drain(a..b);
            out.push(c);
        }
        for k in (0..n).rev().take(40) {
            let mut c = case.clone();
            c.ops.remove(k);
            out.push(c);
        }
    }
    for k in 0..n {
        if let Op::Crash { .. } = case.ops[k] {
            let mut c = case.clone();
            c.ops.remove(k);
            out.push(c);
        }
    }
    if case.charge_buffer > 0.0 {
        let mut c = case.clone();
        c.charge_buffer = 0.0;
        out.push(c);
    }
    if case.disch_buffer > 0.0 {
        let mut c = case.clone();
        c.disch_buffer = 0.0;
        out.push(c);
    }
    if case.aux > 0.0 {
        let mut c = case.clone();
        c.aux = 0.0;
        out.push(c);
    }
    out
}
