//! World `io` (storage, C17): every serialisable object - default and reached by simulation - through
//! save/load in yaml / json / bincode over the string, faulty-reader and real-file channels; for short
//! simulations EVERY step index is used as a crash point (enumerated) in every format, and the run resumed
//! from the reloaded copy must equal the uninterrupted twin (bit-exact for yaml and bincode, 1e-9 for json).

use crate::core::*;
use crate::pt;
use crate::rng::Rng;
use crate::ser::{self, Chan, Fmt, SimReader};
use crate::trn;
use altrios_core::consist::locomotive::loco_sim::{LocomotiveSimulation, PowerTrace};
use altrios_core::meet_pass::est_times::make_est_times;
use altrios_core::prelude::*;
use altrios_core::track::*;
use altrios_core::traits::SerdeAPI;
use altrios_core::train::*;
use altrios_core::uc;
use altrios_core::validate::Valid;
use serde::{Deserialize, Serialize};

#[derive(Serialize, Deserialize, Clone, Debug)]
pub enum Case {
    /// the zoo of exported types in their default / valid states
    Defaults { hash_seed: u64, reader_seed: u64 },
    /// a locomotive or consist simulation: every step index as a crash point, every format
    PowerSim {
        locos: Vec<pt::LocoSpec>,
        as_consist: bool,
        pdct: String,
        save_interval: Option<usize>,
        n_steps: usize,
        brake_first: bool,
        assert_limits: bool,
        #[serde(default = "one")]
        dt: f64,
        hash_seed: u64,
        reader_seed: u64,
        /// calibration setters applied to fully constructed components before the run (unit, component 0 = engine /
        /// 1 = generator / 2 = drivetrain, true = set_eta_max / false = set_eta_range, value): the object a user
        /// gets from `new()` + `set_eta_*` must checkpoint like any other
        #[serde(default)]
        eta_ops: Vec<(usize, u8, bool, f64)>,
    },
    /// a train simulation (set-speed or speed-limited) from the trn generator: sampled crash points x formats
    TrainSim { inner: trn::Case, n_steps: usize, finished: bool, reader_seed: u64 },
}

fn one() -> f64 {
    1.0
}

impl Case {
    pub fn hash_seed(&self) -> u64 {
        match self {
            Case::Defaults { hash_seed, .. } | Case::PowerSim { hash_seed, .. } => *hash_seed,
            Case::TrainSim { inner, .. } => inner.hash_seed,
        }
    }
    pub fn size(&self) -> usize {
        match self {
            Case::Defaults { .. } => 1,
            Case::PowerSim { locos, n_steps, .. } => locos.len() * 3 + n_steps,
            Case::TrainSim { n_steps, inner, .. } => n_steps / 4 + inner.train.consist.len() + inner.route.len(),
        }
    }
}

pub fn generate(rng: &mut Rng, _focus: &str, _thorough: bool) -> Case {
    match rng.below(10) {
        0 => Case::Defaults { hash_seed: rng.next(), reader_seed: rng.next() },
        1..=6 => {
            let as_consist = rng.chance(0.6);
            let n = if as_consist { rng.usize(1, 4) } else { 1 };
            // calibration setters on finished components (drawn first: the component a setter is applied to keeps
            // its generated, non-flat map - on a flat map a stale derived table would be invisible)
            let eta_ops: Vec<(usize, u8, bool, f64)> = if rng.chance(0.2) {
                (0..rng.usize(1, 2)).map(|_| (rng.usize(0, n - 1), rng.below(3) as u8, rng.chance(0.6), if rng.chance(0.5) { *rng.pick(&[0.85, 0.9, 0.95, 0.8]) } else { *rng.pick(&[0.02, 0.05, 0.1]) })).collect()
            } else {
                vec![]
            };
            let locos = (0..n)
                .map(|u| {
                    let b = rng.chance(0.4);
                    let mut l = pt::gen_loco(rng, b);
                    let keeps = |comp: u8| eta_ops.iter().any(|o| o.0 == u && (o.1 == comp || (comp == 2 && o.1 != 1 && b)));
                    // gentle demands on shipped electrical maps so that the trace is accepted step by step
                    match &mut l.kind {
                        pt::KindSpec::Conv { fc, gen, edrv } => {
                            if !keeps(1) {
                                gen.map = pt::MapSpec::default();
                            }
                            if !keeps(2) {
                                edrv.map = pt::MapSpec::default();
                            }
                            gen.p_max = gen.p_max.max(fc.p_max * 1.3);
                            edrv.p_max = edrv.p_max.max(fc.p_max * 1.3);
                        }
                        pt::KindSpec::Bel { edrv, .. } => {
                            if !keeps(2) {
                                edrv.map = pt::MapSpec::default();
                            }
                        }
                        _ => {}
                    }
                    // the shipped hybrid unit: its fuel / battery split search runs on a step counter of its own
                    if rng.chance(0.15) {
                        l.kind = pt::KindSpec::Hybrid;
                    }
                    l
                })
                .collect();
            Case::PowerSim {
                locos,
                as_consist,
                pdct: if rng.chance(0.5) { "RESGreedy".into() } else { "Proportional".into() },
                save_interval: *rng.pick(&[Some(1), Some(1), None, Some(2), Some(5)]),
                n_steps: rng.usize(4, 40),
                brake_first: rng.chance(0.3),
                assert_limits: !rng.chance(0.25),
                // coarse traces (minutes per step): the battery model then leaves its SOC window between two
                // steps and carries on from there - such a state must checkpoint like any other
                dt: if rng.chance(0.15) { *rng.pick(&[30.0, 120.0, 300.0, 600.0]) } else { 1.0 },
                hash_seed: rng.next(),
                reader_seed: rng.next(),
                eta_ops,
            }
        }
        _ => {
            let focus = if rng.chance(0.5) { "C14" } else { "C03" };
            let mut inner = trn::generate(rng, focus, false);
            inner.crashes.clear();
            inner.interval_changes.clear();
            Case::TrainSim { inner, n_steps: rng.usize(20, 120), finished: rng.chance(0.5), reader_seed: rng.next() }
        }
    }
}

// ------------------------------------------------------------------------------------------------
// what the yaml rendering says about the two known limitation classes (finding signatures)
// ------------------------------------------------------------------------------------------------

/// (marker key identifying the struct, key that serde may skip on output)
const SKIPPABLE: &[(&str, &str)] = &[
    ("pwr_idle_fuel_watts", "state"),       // FuelConverter
    ("pwr_out_frac_interp", "state"),       // Generator, ElectricDrivetrain (and FuelConverter)
    ("energy_capacity_joules", "state"),    // ReversibleEnergyStorage
    ("loco_type", "state"),                 // Locomotive
    ("loco_vec", "state"),                  // Consist
    ("ramp_up_time", "state"),              // FricBrake
    ("speed_trace", "state"),               // SetSpeedTrainSim
    ("train_id", "state"),                  // SpeedLimitTrainSim
    ("idx_flip", "osm_id"),                 // Link
    ("rail_vehicles", "cd_area_vec"),       // TrainConfig
    ("heading", "Lat"),                     // Heading
];

fn scan(v: &serde_yaml::Value, skipped: &mut bool, nonfinite: &mut bool) {
    match v {
        serde_yaml::Value::Mapping(m) => {
            for (marker, key) in SKIPPABLE {
                if m.contains_key(&serde_yaml::Value::String((*marker).into())) && !m.contains_key(&serde_yaml::Value::String((*key).into())) {
                    *skipped = true;
                }
            }
            for (_, x) in m {
                scan(x, skipped, nonfinite);
            }
        }
        serde_yaml::Value::Sequence(s) => {
            for x in s {
                scan(x, skipped, nonfinite);
            }
        }
        serde_yaml::Value::Number(n) => {
            if let Some(f) = n.as_f64() {
                if !f.is_finite() {
                    *nonfinite = true;
                }
            }
        }
        _ => {}
    }
}

fn yaml_facts<T: SerdeAPI>(x: &T) -> (bool, bool) {
    let (mut s, mut n) = (false, false);
    if let Ok(v) = serde_yaml::to_value(x) {
        scan(&v, &mut s, &mut n);
    }
    (s, n)
}

fn sort_maps(v: &mut serde_yaml::Value) {
    match v {
        serde_yaml::Value::Mapping(m) => {
            let mut items: Vec<(serde_yaml::Value, serde_yaml::Value)> = m.iter().map(|(k, x)| (k.clone(), x.clone())).collect();
            for (_, x) in items.iter_mut() {
                sort_maps(x);
            }
            items.sort_by(|a, b| serde_yaml::to_string(&a.0).unwrap_or_default().cmp(&serde_yaml::to_string(&b.0).unwrap_or_default()));
            let mut m2 = serde_yaml::Mapping::new();
            for (k, x) in items {
                m2.insert(k, x);
            }
            *m = m2;
        }
        serde_yaml::Value::Sequence(s) => {
            for x in s {
                sort_maps(x);
            }
        }
        _ => {}
    }
}

fn canon<T: SerdeAPI>(x: &T) -> Vec<u8> {
    // canonical rendering for "equal": yaml with map keys in canonical order (hash maps may legitimately
    // reorder their keys between two instances); bit-exact floats; NaN sentinels compare equal to themselves
    match serde_yaml::to_value(x) {
        Ok(mut v) => {
            sort_maps(&mut v);
            serde_yaml::to_string(&v).map(|s| s.into_bytes()).unwrap_or_default()
        }
        Err(_) => vec![],
    }
}

/// largest relative difference between corresponding numbers of two renderings (None = structure differs)
fn max_rel_diff(a: &serde_yaml::Value, b: &serde_yaml::Value) -> Option<f64> {
    match (a, b) {
        (serde_yaml::Value::Mapping(x), serde_yaml::Value::Mapping(y)) => {
            if x.len() != y.len() {
                return None;
            }
            let mut m: f64 = 0.0;
            for (k, v) in x {
                m = m.max(max_rel_diff(v, y.get(k)?)?);
            }
            Some(m)
        }
        (serde_yaml::Value::Sequence(x), serde_yaml::Value::Sequence(y)) => {
            if x.len() != y.len() {
                return None;
            }
            let mut m: f64 = 0.0;
            for (p, q) in x.iter().zip(y) {
                m = m.max(max_rel_diff(p, q)?);
            }
            Some(m)
        }
        (serde_yaml::Value::Number(p), serde_yaml::Value::Number(q)) => {
            let (p, q) = (p.as_f64()?, q.as_f64()?);
            if p == q || (p.is_nan() && q.is_nan()) {
                Some(0.0)
            } else {
                Some(((p - q) / p.abs().max(q.abs())).abs())
            }
        }
        _ => {
            if a == b {
                Some(0.0)
            } else {
                None
            }
        }
    }
}

/// (1) reload succeeds, (2) no drift, (4) legal reader behaviours change nothing, hard errors give Err
pub fn roundtrip<T: SerdeAPI>(ctx: &mut Ctx, name: &str, x: &T, rng: &mut Rng, with_file: bool) {
    let (skipped, nonfinite) = yaml_facts(x);
    for fmt in Fmt::all() {
        ctx.hit("stat.roundtrips");
        let mut sg = sig1("format", fmt.ext());
        sg.insert("type".into(), name.into());
        sg.insert("value_has_nonfinite_float".into(), nonfinite.into());
        sg.insert("serde_skipped_a_known_skippable_field".into(), skipped.into());
        let b1 = match ser::to_bytes(x, fmt) {
            Ok(b) => b,
            Err(e) => {
                ctx.violate_sig("C17", "roundtrip", "object can be written", format!("{name} in {}: {e:#}", fmt.ext()), sg);
                continue;
            }
        };
        let r1: T = match ser::from_bytes(&b1, fmt) {
            Ok(r) => r,
            Err(e) => {
                ctx.violate_sig("C17", "roundtrip", "object can be read back", format!("{name} in {}: {}", fmt.ext(), format!("{e:#}").lines().next().unwrap_or("").chars().take(160).collect::<String>()), sg);
                continue;
            }
        };
        // second round trip: equal object, identical bytes (no drift)
        match ser::to_bytes(&r1, fmt).and_then(|b2| ser::from_bytes::<T>(&b2, fmt).map(|r2| (b2, r2))) {
            Ok((_b2, r2)) => {
                if canon(&r2) != canon(&r1) {
                    let d = match (serde_yaml::to_value(&r1), serde_yaml::to_value(&r2)) {
                        (Ok(mut a), Ok(mut b)) => {
                            sort_maps(&mut a);
                            sort_maps(&mut b);
                            max_rel_diff(&a, &b)
                        }
                        _ => None,
                    };
                    let mut sg2 = sg.clone();
                    sg2.insert("same_structure".into(), d.is_some().into());
                    sg2.insert("max_rel_diff".into(), d.unwrap_or(f64::NAN).into());
                    ctx.violate_sig("C17", "roundtrip", "repeated round trips do not drift", format!("{name} in {}: the second round trip returns a different object (largest relative difference of a number: {:?})", fmt.ext(), d), sg2);
                }
            }
            Err(e) => ctx.violate_sig("C17", "roundtrip", "repeated round trips do not drift", format!("{name} in {}: second round trip fails: {e:#}", fmt.ext()), sg.clone()),
        }
        // yaml and bincode carry every float exactly: the reload renders exactly like the original
        if fmt != Fmt::Json && canon(&r1) != canon(x) && !name.contains("init fills derived fields") {
            ctx.violate_sig("C17", "roundtrip", "reloaded object equals the original", format!("{name} in {}: yaml rendering of the reload differs from that of the original", fmt.ext()), sg.clone());
        }
        // reader: short reads and EINTR are legal and change nothing
        let mut rd = SimReader::new(&b1, rng.next());
        match T::from_reader(&mut rd, fmt.ext()) {
            Ok(r) => {
                if canon(&r) != canon(&r1) {
                    ctx.violate_sig("C17", "reader", "short reads / EINTR change nothing", format!("{name} in {}", fmt.ext()), sg.clone());
                }
            }
            Err(e) => ctx.violate_sig("C17", "reader", "short reads / EINTR change nothing", format!("{name} in {}: {e:#}", fmt.ext()), sg.clone()),
        }
        ctx.add("fault.read.short", rd.n_short);
        ctx.add("fault.read.eintr", rd.n_eintr);
        // hard error at the first byte, the last byte and three seeded bytes => Err
        if b1.len() > 2 {
            let n = b1.len();
            for at in [0, n - 1, rng.below(n as u64) as usize, rng.below(n as u64) as usize, rng.below(n as u64) as usize] {
                let mut rd = SimReader::new(&b1, rng.next());
                rd.eio_at = Some(at);
                if T::from_reader(&mut rd, fmt.ext()).is_ok() {
                    ctx.violate_sig("C17", "reader", "I/O error during load is reported", format!("{name} in {}: Ok although the reader failed at byte {at} of {n}", fmt.ext()), sg.clone());
                }
                ctx.add("fault.read.eio", rd.n_eio.min(1));
            }
            // torn file: a strict prefix of what was written must never panic the loader; json and bincode
            // cannot be complete before their last byte, so there the loader must refuse (a yaml prefix can be
            // a document of its own - nothing more is promised for it)
            for cut in [0, n - 1, rng.below(n as u64) as usize, rng.below(n as u64) as usize] {
                let r = ser::from_bytes::<T>(&b1[..cut], fmt);
                ctx.hit("fault.write.torn");
                if fmt != Fmt::Yaml && r.is_ok() {
                    ctx.violate_sig("C17", "reader", "a torn file is refused", format!("{name} in {}: the first {cut} of {n} bytes load as an object", fmt.ext()), sg.clone());
                }
            }
        }
        if with_file {
            let mut c2 = Ctx::default();
            match ser::reload(x, fmt, Chan::File, &mut c2) {
                Ok(r) => {
                    if canon(&r) != canon(&r1) {
                        ctx.violate_sig("C17", "roundtrip", "file channel = string channel", format!("{name} in {}", fmt.ext()), sg.clone());
                    }
                }
                Err(e) => ctx.violate_sig("C17", "roundtrip", "file channel = string channel", format!("{name} in {}: {e:#}", fmt.ext()), sg.clone()),
            }
            ctx.hit("fault.crash.file_channel");
            if let Some(k) = c2.counters.get("fault.disk.older_longer_file_in_place") {
                ctx.add("fault.disk.older_longer_file_in_place", *k);
            }
        }
    }
}

// ------------------------------------------------------------------------------------------------
// resume equivalence with every step index as the crash point
// ------------------------------------------------------------------------------------------------

trait Steppable: SerdeAPI + Clone {
    fn step1(&mut self) -> anyhow::Result<()>;
    fn totals(&self) -> Vec<f64>;
    /// reach probe: some battery's state of charge is outside its configured window in this state
    fn soc_outside(&self) -> bool {
        false
    }
}
fn loco_soc_outside(l: &altrios_core::consist::locomotive::Locomotive) -> bool {
    l.reversible_energy_storage().map(|r| r.state.soc < r.min_soc || r.state.soc > r.max_soc).unwrap_or(false)
}
impl Steppable for LocomotiveSimulation {
    fn step1(&mut self) -> anyhow::Result<()> {
        self.step()
    }
    fn totals(&self) -> Vec<f64> {
        vec![self.loco_unit.state.energy_out.value, self.loco_unit.state.energy_aux.value, self.i as f64]
    }
    fn soc_outside(&self) -> bool {
        loco_soc_outside(&self.loco_unit)
    }
}
impl Steppable for ConsistSimulation {
    fn step1(&mut self) -> anyhow::Result<()> {
        self.step()
    }
    fn totals(&self) -> Vec<f64> {
        vec![self.loco_con.state.energy_out.value, self.loco_con.state.energy_fuel.value, self.loco_con.state.energy_res.value, self.i as f64]
    }
    fn soc_outside(&self) -> bool {
        self.loco_con.loco_vec.iter().any(loco_soc_outside)
    }
}
impl Steppable for SetSpeedTrainSim {
    fn step1(&mut self) -> anyhow::Result<()> {
        self.step()
    }
    fn totals(&self) -> Vec<f64> {
        vec![self.state.offset.value, self.state.energy_whl_out.value, self.loco_con.state.energy_fuel.value, self.state.i as f64]
    }
}
impl Steppable for SpeedLimitTrainSim {
    fn step1(&mut self) -> anyhow::Result<()> {
        self.step()
    }
    fn totals(&self) -> Vec<f64> {
        vec![self.state.offset.value, self.state.speed.value, self.state.energy_whl_out.value, self.loco_con.state.energy_fuel.value, self.state.i as f64]
    }
}

/// run `n` steps without interruption, then for every crash point in `points` and every format: run the
/// prefix, save, load, run the rest, compare with the uninterrupted twin
fn resume_all<T: Steppable>(ctx: &mut Ctx, name: &str, start: &T, n: usize, points: &[usize], rng: &mut Rng) {
    // the uninterrupted twin, with a checkpoint of the live object after every step
    let mut live = start.clone();
    let mut trail: Vec<T> = vec![live.clone()];
    let mut n_ok = 0;
    for _ in 0..n {
        if let Err(e) = live.step1() {
            ctx.hit_dyn(format!("note.io.run_ends_with: {}", format!("{e:#}").lines().last().unwrap_or("").trim().chars().take(70).collect::<String>()));
            break;
        }
        n_ok += 1;
        if live.soc_outside() {
            ctx.hit("probe.io.checkpoint_with_soc_outside_window");
        }
        trail.push(live.clone());
    }
    ctx.add("stat.steps", n_ok as u64);
    // the last state reached by a successful step (a failed step may leave the live object half-updated)
    let last_good = trail.last().unwrap();
    let final_canon = canon(last_good);
    let final_tot = last_good.totals();
    drop(live);
    for &k in points {
        if k > n_ok {
            continue;
        }
        ctx.event = k;
        let at = &trail[k];
        let (skipped, nonfinite) = yaml_facts(at);
        for fmt in Fmt::all() {
            ctx.hit("stat.crash_points");
            let mut sg = sig1("format", fmt.ext());
            sg.insert("type".into(), name.into());
            sg.insert("crash_point".into(), k.into());
            sg.insert("value_has_nonfinite_float".into(), nonfinite.into());
            sg.insert("serde_skipped_a_known_skippable_field".into(), skipped.into());
            let chan = if rng.chance(0.25) { Chan::Reader { seed: rng.next() } } else { Chan::Str };
            let mut resumed: T = match ser::reload(at, fmt, chan, ctx) {
                Ok(r) => r,
                Err(e) => {
                    ctx.violate_sig("C17", "roundtrip", "object can be read back", format!("{name} after {k} steps in {}: {}", fmt.ext(), format!("{e:#}").lines().next().unwrap_or("").chars().take(160).collect::<String>()), sg);
                    continue;
                }
            };
            ctx.hit(match fmt {
                Fmt::Yaml => "fault.crash.yaml",
                Fmt::Json => "fault.crash.json",
                Fmt::Bin => "fault.crash.bin",
            });
            let mut ok = true;
            for j in k..n_ok {
                if let Err(e) = resumed.step1() {
                    ctx.violate_sig("C17", "resume", "resumed run = uninterrupted run", format!("{name}: checkpoint after {k} steps in {}: step {} fails in the resumed copy only: {}", fmt.ext(), j + 1, format!("{e:#}").lines().last().unwrap_or("").trim().chars().take(140).collect::<String>()), sg.clone());
                    ok = false;
                    break;
                }
            }
            if !ok {
                continue;
            }
            if fmt == Fmt::Json {
                let t = resumed.totals();
                if t.len() != final_tot.len() || t.iter().zip(&final_tot).any(|(a, b)| !close(*a, *b, 1e-9, 1e-9, 0.0)) {
                    ctx.violate_sig("C17", "resume", "resumed run = uninterrupted run", format!("{name}: checkpoint after {k} steps in json: totals {:?} vs {:?}", t, final_tot), sg.clone());
                }
            } else if canon(&resumed) != final_canon {
                let t = resumed.totals();
                ctx.violate_sig("C17", "resume", "resumed run = uninterrupted run", format!("{name}: checkpoint after {k} steps in {}: final object differs from the uninterrupted run (totals {:?} vs {:?})", fmt.ext(), t, final_tot), sg.clone());
            }
        }
    }
    ctx.trace.bytes(&final_canon);
}

pub fn execute(case: &Case, ctx: &mut Ctx) {
    ctx.layer = "save/load";
    match case {
        Case::Defaults { reader_seed, .. } => {
            ctx.class.push("io:defaults".into());
            let mut rng = Rng::new(*reader_seed);
            let r = &mut rng;
            roundtrip(ctx, "FuelConverter::default", &FuelConverter::default(), r, true);
            roundtrip(ctx, "Generator::default", &Generator::default(), r, false);
            roundtrip(ctx, "ElectricDrivetrain::default", &ElectricDrivetrain::default(), r, false);
            roundtrip(ctx, "ReversibleEnergyStorage::default", &ReversibleEnergyStorage::default(), r, false);
            roundtrip(ctx, "Locomotive::default", &Locomotive::default(), r, true);
            roundtrip(ctx, "Locomotive::default_battery_electric_loco", &Locomotive::default_battery_electric_loco(), r, false);
            roundtrip(ctx, "Consist::default (init fills derived fields)", &Consist::default(), r, false);
            roundtrip(ctx, "PowerTrace::default", &PowerTrace::default(), r, false);
            roundtrip(ctx, "SpeedTrace::default", &SpeedTrace::default(), r, false);
            roundtrip(ctx, "LocomotiveSimulation::default", &LocomotiveSimulation::default(), r, false);
            roundtrip(ctx, "ConsistSimulation::default (init fills derived fields)", &ConsistSimulation::default(), r, false);
            roundtrip(ctx, "RailVehicle::default", &RailVehicle::default(), r, false);
            roundtrip(ctx, "TrainConfig::valid", &TrainConfig::valid(), r, false);
            roundtrip(ctx, "TrainSimBuilder::default", &TrainSimBuilder::default(), r, false);
            roundtrip(ctx, "TrainParams::valid", &TrainParams::valid(), r, false);
            roundtrip(ctx, "PathTpc::default (unfinished)", &PathTpc::default(), r, false);
            roundtrip(ctx, "PathTpc::valid (finished)", &PathTpc::valid(), r, true);
            roundtrip(ctx, "TrainRes::valid", &TrainRes::valid(), r, false);
            roundtrip(ctx, "SetSpeedTrainSim::default (init fills derived fields)", &SetSpeedTrainSim::default(), r, false);
            roundtrip(ctx, "SpeedLimitTrainSim::valid (init fills derived fields)", &SpeedLimitTrainSim::valid(), r, false);
            roundtrip(ctx, "Link::valid", &Link::valid(), r, false);
            roundtrip(ctx, "Network(valid)", &Network(Vec::<Link>::valid()), r, true);
            roundtrip(ctx, "InitTrainState::default", &InitTrainState::default(), r, false);
            roundtrip(ctx, "LinkPath", &LinkPath(vec![LinkIdx::new(1), LinkIdx::new(7)]), r, false);
            roundtrip(ctx, "TimedLinkPath", &TimedLinkPath(vec![LinkIdxTime::new(LinkIdx::new(1), 12.5 * uc::S)]), r, false);
            // an estimated-time network of the shipped valid train on the valid one-link network, if it can be built
            let mut s = SpeedLimitTrainSim::valid();
            s.origs = vec![];
            let _ = s;
            ctx.nontrivial = true;
        }
        Case::PowerSim { locos, as_consist, pdct, save_interval, n_steps, brake_first, assert_limits, dt, reader_seed, eta_ops, .. } => {
            ctx.class.push(format!("io:powersim:{}:n{}:iv{:?}:al{}:dt{}", if *as_consist { "con" } else { "loco" }, locos.len(), save_interval.map(|x| x.min(3)), assert_limits, dt));
            if *dt > 1.0 {
                ctx.hit("probe.io.coarse_trace");
            }
            let mut rng = Rng::new(*reader_seed);
            let ptc = pt::Case { locos: locos.clone(), as_consist: *as_consist, pdct: pdct.clone(), save_interval: *save_interval, ops: vec![], hash_seed: 0, shipped_walk: false, twin: false, nested_drift: false, late_units: false };
            let n = *n_steps + 1;
            let rating: f64 = locos.iter().map(|l| match &l.kind { pt::KindSpec::Conv { fc, .. } => fc.p_max, pt::KindSpec::Bel { res, edrv } => res.p_max.min(edrv.p_max), _ => 1e6 }).fold(f64::INFINITY, f64::min) * locos.len() as f64;
            let time: Vec<f64> = (0..n).map(|k| k as f64 * *dt).collect();
            let pwr: Vec<f64> = (0..n)
                .map(|k| {
                    if *brake_first && k <= 2 {
                        return -0.05 * rating;
                    }
                    // with limit checking off the demand may exceed the transient limit: a reload that re-arms the
                    // checks makes the resumed copy refuse what the uninterrupted run accepts
                    let amp = if *assert_limits { 0.03 } else { 0.12 };
                    if *dt > 1.0 {
                        // coarse trace: each step moves the smallest battery by a few per cent of its capacity, so a
                        // step that starts just outside a derating ramp ends beyond the SOC window
                        let cap_min = locos.iter().filter_map(|l| match &l.kind { pt::KindSpec::Bel { res, .. } => Some(res.cap_j), _ => None }).fold(f64::INFINITY, f64::min);
                        if cap_min.is_finite() {
                            let per_step = 0.03 + 0.09 * ((*reader_seed >> 8) % 1000) as f64 / 1000.0;
                            let p = (per_step * cap_min * locos.len() as f64 / *dt).min(0.85 * rating);
                            return if k % 7 >= 4 { -0.8 * p } else { p };
                        }
                    }
                    rating * (amp * (k.min(10) as f64) / 10.0 + if k % 7 == 3 { -0.04 } else { 0.0 })
                })
                .collect();
            let trace = PowerTrace::new(time, pwr, vec![Some(true); n]);
            let points: Vec<usize> = (0..=*n_steps).collect();
            if *as_consist {
                let mut con = pt::build_consist(&ptc);
                for op in eta_ops {
                    if let Some(l) = con.loco_vec.get_mut(op.0) {
                        if !apply_eta_op(ctx, l, op) {
                            return;
                        }
                    }
                }
                if !assert_limits {
                    con.set_assert_limits(false);
                }
                let sim = ConsistSimulation::new(con, trace, *save_interval);
                resume_all(ctx, "ConsistSimulation", &sim, *n_steps, &points, &mut rng);
                roundtrip(ctx, "ConsistSimulation (generated, init fills derived fields)", &sim, &mut rng, false);
            } else {
                let mut loco = pt::build_loco(&locos[0], *save_interval);
                for op in eta_ops {
                    if op.0 == 0 && !apply_eta_op(ctx, &mut loco, op) {
                        return;
                    }
                }
                if !assert_limits {
                    loco.assert_limits = false;
                }
                let sim = LocomotiveSimulation::new(loco, trace, *save_interval);
                resume_all(ctx, "LocomotiveSimulation", &sim, *n_steps, &points, &mut rng);
                roundtrip(ctx, "LocomotiveSimulation (generated)", &sim, &mut rng, false);
            }
            ctx.nontrivial = *n_steps >= 5;
        }
        Case::TrainSim { inner, n_steps, finished, reader_seed } => {
            let mut rng = Rng::new(*reader_seed);
            let links = &inner.links;
            let lroute: Vec<LinkIdx> = inner.route.iter().map(|x| LinkIdx::new(*x)).collect();
            // a sample of crash points incl. the first and the last step
            let mut points: Vec<usize> = vec![0, 1, *n_steps];
            for _ in 0..5 {
                points.push(rng.usize(0, *n_steps));
            }
            points.sort();
            points.dedup();
            match &inner.kind {
                trn::Kind::SetSpeed { v0, trace, .. } => {
                    ctx.class.push(format!("io:setspeed:units{}", inner.train.consist.len()));
                    let Ok(tc) = trn::build_train_config(&inner.train) else { return };
                    let its = InitTrainState::new(Some(inner.init_time * uc::S), inner.init_offset.map(|o| o * uc::M), if inner.init_speed_unset { None } else { Some(*v0 * uc::MPS) });
                    let tsb = TrainSimBuilder::new("t0".into(), tc, trn::build_consist(&inner.train, inner.save_interval), None, None, Some(its));
                    let mut t = inner.init_time;
                    let (mut times, mut speeds) = (vec![t], vec![*v0]);
                    for (dt, v) in trace {
                        t += dt;
                        times.push(t);
                        speeds.push(*v);
                    }
                    let n = (*n_steps).min(trace.len());
                    let Ok(sim) = tsb.make_set_speed_train_sim(links, &lroute, SpeedTrace::new(times, speeds, None), inner.save_interval) else { return };
                    let pts: Vec<usize> = points.iter().map(|p| (*p).min(n)).collect();
                    resume_all(ctx, "SetSpeedTrainSim", &sim, n, &pts, &mut rng);
                    roundtrip(ctx, "TrainSimBuilder (generated)", &tsb, &mut rng, false);
                    roundtrip(ctx, "TrainConfig (generated)", &tsb.train_config, &mut rng, false);
                    ctx.nontrivial = n >= 5;
                }
                _ => {
                    ctx.class.push(format!("io:limit:units{}:finished{}", inner.train.consist.len(), finished));
                    let Ok(mut sim) = trn::make_limit_sim(inner) else { return };
                    if sim.extend_path(links, &lroute).is_err() {
                        return;
                    }
                    if *finished {
                        sim.finish();
                    }
                    resume_all(ctx, if *finished { "SpeedLimitTrainSim (finished path)" } else { "SpeedLimitTrainSim" }, &sim, *n_steps, &points, &mut rng);
                    roundtrip(ctx, "PathTpc (generated)", &sim.path_tpc, &mut rng, false);
                    roundtrip(ctx, "Network (generated)", &Network(links.clone()), &mut rng, true);
                    // estimated-time network of the same train
                    if rng.chance(0.3) {
                        if let Ok(s0) = trn::make_limit_sim(inner) {
                            // (a panic inside est-time construction belongs to C15, not to storage)
                            if let Ok(Ok((et, _))) = std::panic::catch_unwind(std::panic::AssertUnwindSafe(|| make_est_times(s0, links))) {
                                roundtrip(ctx, "EstTimeNet", &et, &mut rng, false);
                            }
                        }
                    }
                    ctx.nontrivial = true;
                }
            }
        }
    }
}

/// `new()` leaves a component with its derived tables built; a calibration setter is then applied to that
/// finished object (value: eta_max for `true`, eta_range for `false`; a value outside the setter's domain is
/// simply refused by it)
/// Returns false when the setter refused the value: nothing is promised about the object after a refused
/// update (it may be half-changed), so the case ends there.
fn apply_eta_op(ctx: &mut Ctx, l: &mut Locomotive, op: &(usize, u8, bool, f64)) -> bool {
    use altrios_core::consist::locomotive::locomotive_model::PowertrainType;
    let (_, comp, is_max, val) = *op;
    let val = if is_max { val.max(0.5) } else { val.min(0.3) };
    let r: Result<(), String> = match (&mut l.loco_type, comp) {
        (PowertrainType::ConventionalLoco(c), 0) => if is_max { c.fc.set_eta_max(val) } else { c.fc.set_eta_range(val) },
        (PowertrainType::ConventionalLoco(c), 1) => {
            let _ = c.gen.set_pwr_in_frac_interp();
            if is_max { c.gen.set_eta_max(val) } else { c.gen.set_eta_range(val) }
        }
        (PowertrainType::ConventionalLoco(c), _) => {
            let _ = c.edrv.set_pwr_in_frac_interp();
            if is_max { c.edrv.set_eta_max(val) } else { c.edrv.set_eta_range(val) }
        }
        (PowertrainType::BatteryElectricLoco(b), _) => {
            let _ = b.edrv.set_pwr_in_frac_interp();
            if is_max { b.edrv.set_eta_max(val) } else { b.edrv.set_eta_range(val) }
        }
        _ => return true,
    };
    match r {
        Ok(()) => {
            ctx.hit("fault.config.eta_setter_after_construction");
            true
        }
        Err(_) => {
            ctx.hit("stat.eta_setter_refused");
            false
        }
    }
}

pub fn shrink(case: &Case) -> Vec<Case> {
    let mut out = vec![];
    match case {
        Case::PowerSim { locos, as_consist, pdct, save_interval, n_steps, brake_first, assert_limits, dt, hash_seed, reader_seed, eta_ops } => {
            let mk = |locos: Vec<pt::LocoSpec>, n: usize, iv: Option<usize>, bf: bool| Case::PowerSim { eta_ops: if locos.len() == 1 { eta_ops.iter().map(|o| (0, o.1, o.2, o.3)).collect() } else { eta_ops.clone() }, locos, as_consist: *as_consist, pdct: pdct.clone(), save_interval: iv, n_steps: n, brake_first: bf, assert_limits: *assert_limits, dt: *dt, hash_seed: *hash_seed, reader_seed: *reader_seed };
            if *n_steps > 2 {
                out.push(mk(locos.clone(), n_steps / 2, *save_interval, *brake_first));
                out.push(mk(locos.clone(), n_steps - 1, *save_interval, *brake_first));
            }
            if locos.len() > 1 {
                for k in 0..locos.len() {
                    let mut l2 = locos.clone();
                    l2.remove(k);
                    out.push(mk(l2, *n_steps, *save_interval, *brake_first));
                }
            }
            if *save_interval != Some(1) {
                out.push(mk(locos.clone(), *n_steps, Some(1), *brake_first));
            }
            if *brake_first {
                out.push(mk(locos.clone(), *n_steps, *save_interval, false));
            }
        }
        Case::TrainSim { inner, n_steps, finished, reader_seed } => {
            if *n_steps > 4 {
                out.push(Case::TrainSim { inner: inner.clone(), n_steps: n_steps / 2, finished: *finished, reader_seed: *reader_seed });
            }
            for c in trn::shrink(inner) {
                out.push(Case::TrainSim { inner: c, n_steps: *n_steps, finished: *finished, reader_seed: *reader_seed });
            }
        }
        _ => {}
    }
    out
}
