//! Property -> world dispatch. One enum holds the materialised case of any world, so that the
//! runner, replay and minimiser are world-agnostic.

use crate::core::*;
use crate::rng::Rng;
use serde::{Deserialize, Serialize};

#[derive(Serialize, Deserialize, Clone, Debug)]
pub enum Case {
    Pt(crate::pt::Case),
}

impl Case {
    pub fn hash_seed(&self) -> u64 {
        match self {
            Case::Pt(c) => c.hash_seed,
        }
    }
    pub fn size(&self) -> usize {
        match self {
            Case::Pt(c) => c.ops.len() + c.locos.len(),
        }
    }
}

pub struct PropInfo {
    pub id: &'static str,
    pub world: &'static str,
    pub level: &'static str,
    pub quick_runs: u64,
    pub thorough_runs: u64,
    pub rule: &'static str,
    pub real: &'static [&'static str],
    pub stub: &'static [&'static str],
    pub assumptions: &'static [&'static str],
}

const PT_REAL: &[&str] = &["altrios_core::consist::{Consist, Locomotive, FuelConverter, Generator, ElectricDrivetrain, ReversibleEnergyStorage} (real code)", "LocomotiveSimulation::walk / ConsistSimulation::walk (real code, cross-check driver)", "SerdeAPI save/load in yaml/json/bincode (real code)"];
const PT_STUB: &[&str] = &["clock: the simulator issues every dt", "storage: in-memory byte buffers behind a simulated Read (short reads, EINTR)", "pyo3 layer: not run"];
const PT_RULE: &str = "a case = generated consist/locomotive parameters + seeded op list (ticks with closed-loop demand policy, crash/restore, interval changes, over-limit requests); distinct = distinct hash of (scenario class, fault kinds fired, reach probes hit); non-trivial = at least 5 accepted ticks";

pub const PROPS: &[PropInfo] = &[
    PropInfo { id: "C01", world: "pt", level: "exploration", quick_runs: 20_000, thorough_runs: 1_000_000, rule: PT_RULE, real: PT_REAL, stub: PT_STUB,
        assumptions: &["engine on (engine-off steps belong to C08)", "efficiency maps, ratings, battery maps, SOC inside the generator domain (DESIGN 2.3)", "tolerance 1e-9 relative to the largest term (measured residual of the unchanged tree ~1e-14)"] },
    PropInfo { id: "C08", world: "pt", level: "exploration", quick_runs: 20_000, thorough_runs: 1_000_000, rule: PT_RULE, real: PT_REAL, stub: PT_STUB,
        assumptions: &["efficiency map values in (0,1] (generator domain)", "tolerance 1e-9 relative + 1e-6 W on inequalities"] },
    PropInfo { id: "C09", world: "pt", level: "exploration", quick_runs: 20_000, thorough_runs: 1_000_000, rule: PT_RULE, real: PT_REAL, stub: PT_STUB,
        assumptions: &["assert_limits = true", "dt <= 0.5*ramp_width*capacity*eta_min/rating (largest step for which linear derating can keep SOC inside its window)", "the code's own acceptance tolerance of 1e-3 at component limits is part of the oracle"] },
    PropInfo { id: "C10", world: "pt", level: "exploration", quick_runs: 20_000, thorough_runs: 1_000_000, rule: PT_RULE, real: PT_REAL, stub: PT_STUB,
        assumptions: &["RESGreedy and Proportional only (GoldenSectionSearch / FrontAndBack are todo!() in the code)", "conservation to 1e-8 relative (the code's own notion)"] },
    PropInfo { id: "C19", world: "pt", level: "exploration", quick_runs: 12_000, thorough_runs: 600_000, rule: PT_RULE, real: PT_REAL, stub: PT_STUB,
        assumptions: &["save intervals None, 1, n >= 2 (0 is not an interval)", "intervals are changed only at the top level (statement)"] },
];

pub fn info(prop: &str) -> Option<&'static PropInfo> {
    PROPS.iter().find(|p| p.id == prop)
}

pub fn generate(prop: &str, rng: &mut Rng, thorough: bool) -> Case {
    match info(prop).map(|i| i.world) {
        Some("pt") => Case::Pt(crate::pt::generate(rng, prop, thorough)),
        _ => panic!("no world for property {prop}"),
    }
}

pub fn execute(case: &Case, ctx: &mut Ctx) {
    match case {
        Case::Pt(c) => crate::pt::execute(c, ctx),
    }
}

pub fn shrink(case: &Case) -> Vec<Case> {
    match case {
        Case::Pt(c) => crate::pt::shrink(c).into_iter().map(Case::Pt).collect(),
    }
}

/// which property a panic belongs to, decided by world, layer and panic location (None = unarmed event)
pub fn panic_property(case: &Case, _layer: &str, location: &str) -> Option<&'static str> {
    match case {
        Case::Pt(_) => {
            if location.contains("consist_utils.rs") || location.contains("utils/mod.rs") {
                Some("C10")
            } else {
                None
            }
        }
    }
}
