//! Property -> world dispatch. One enum holds the materialised case of any world, so that the
//! runner, replay and minimiser are world-agnostic.

use crate::core::*;
use crate::rng::Rng;
use serde::{Deserialize, Serialize};

#[derive(Serialize, Deserialize, Clone, Debug)]
pub enum Case {
    Pt(crate::pt::Case),
    Trk(crate::trk::Case),
    Val(crate::val::Case),
    Mass(crate::mass::Case),
    Trn(crate::trn::Case),
    Dsp(crate::dsp::Case),
    Thr(crate::thr::Case),
    Io(crate::io::Case),
    Cmp(crate::cmp::Case),
}

/// Rebuild every hash map the scenario carries under the calling thread's `RandomState` keys. The scenario
/// was materialised on another thread; a cloned map keeps its hasher, so without this the simulated hash
/// seed of a run would only reach maps created during the run.
pub fn rehash(case: &mut Case) {
    fn links(ls: &mut [altrios_core::track::Link]) {
        for l in ls {
            if !l.speed_sets.is_empty() {
                l.speed_sets = l.speed_sets.drain().collect();
            }
        }
    }
    match case {
        Case::Trk(c) => links(&mut c.links),
        Case::Val(c) => links(&mut c.links),
        Case::Trn(c) => links(&mut c.links),
        Case::Dsp(c) => links(&mut c.links),
        Case::Io(crate::io::Case::TrainSim { inner, .. }) => links(&mut inner.links),
        Case::Thr(crate::thr::Case::HashRepeat { inner, .. }) => rehash(inner),
        _ => {}
    }
}

impl Case {
    pub fn hash_seed(&self) -> u64 {
        match self {
            Case::Pt(c) => c.hash_seed,
            Case::Trk(c) => c.hash_seed,
            Case::Val(c) => c.hash_seed,
            Case::Mass(c) => c.hash_seed,
            Case::Trn(c) => c.hash_seed,
            Case::Dsp(c) => c.hash_seed,
            Case::Thr(c) => c.hash_seed(),
            Case::Io(c) => c.hash_seed(),
            Case::Cmp(c) => c.hash_seed,
        }
    }
    pub fn world_name(&self) -> &'static str {
        match self {
            Case::Pt(_) => "pt",
            Case::Trk(_) => "trk",
            Case::Val(_) => "val",
            Case::Mass(_) => "mass",
            Case::Trn(_) => "trn",
            Case::Dsp(_) => "dsp",
            Case::Thr(_) => "thr",
            Case::Io(_) => "io",
            Case::Cmp(_) => "cmp",
        }
    }
    /// does the case execute library code on real (uncontrolled) thread pools whose scheduling it only observes?
    pub fn observes_real_threads(&self) -> bool {
        matches!(self, Case::Thr(crate::thr::Case::Rayon { .. }) | Case::Thr(crate::thr::Case::PoolRepeat { .. }) | Case::Thr(crate::thr::Case::NetBatch { .. }))
    }
    pub fn size(&self) -> usize {
        match self {
            Case::Thr(c) => c.size(),
            Case::Io(c) => c.size(),
            Case::Dsp(c) => c.trains.len() * 10 + c.walk_plans as usize + c.trains.iter().map(|t| t.spec.consist.len() + t.spec.cars.len() + (t.depart != (t.depart / 100.0).round() * 100.0) as usize).sum::<usize>() + c.links.iter().map(|l| l.link_idxs_lockout.len() + l.headings.len()).sum::<usize>(),
            Case::Trn(c) => c.crashes.len() + c.interval_changes.len() + c.route.len() * 4 + c.train.consist.len() + c.train.cars.len() + c.train.cars.iter().map(|x| (x.n as usize) / 8).sum::<usize>()
                + match &c.kind { crate::trn::Kind::SetSpeed { trace, .. } => trace.len(), crate::trn::Kind::LimitManual { auths, .. } => 3 + auths.len() * 2, crate::trn::Kind::LimitTimed { .. } => 3, _ => 1 }
                + c.route.iter().map(|l| { let l = &c.links[*l as usize]; l.elevs.len() + l.headings.len() + l.speed_set.as_ref().map(|s| s.speed_limits.len()).unwrap_or(0) }).sum::<usize>(),
            Case::Mass(c) => c.ops.len() + c.init_spec.is_some() as usize + match c.target { crate::mass::Target::Consist { n } => n, _ => 1 },
            Case::Val(c) => c.links.len() + if c.only.is_some() { 0 } else { 1000 },
            Case::Pt(c) => c.ops.len() + c.locos.len(),
            Case::Cmp(c) => c.ops.len() + (c.charge_buffer > 0.0) as usize + (c.disch_buffer > 0.0) as usize + (c.aux > 0.0) as usize,
            Case::Trk(c) => c.ops.len() + c.route.len() + c.links.iter().map(|l| l.elevs.len() + l.headings.len() + l.cat_power_limits.len() + l.speed_set.as_ref().map(|s| s.speed_limits.len() + s.speed_params.len()).unwrap_or(0)).sum::<usize>(),
        }
    }
}

pub struct PropInfo {
    pub id: &'static str,
    pub world: &'static str,
    pub level: &'static str,
    pub quick_runs: u64,
    pub thorough_runs: u64,
    pub rule: &'static str,
    pub real: &'static [&'static str],
    pub stub: &'static [&'static str],
    pub assumptions: &'static [&'static str],
}

const PT_REAL: &[&str] = &["altrios_core::consist::{Consist, Locomotive, FuelConverter, Generator, ElectricDrivetrain, ReversibleEnergyStorage} (real code)", "LocomotiveSimulation::walk / ConsistSimulation::walk (real code, cross-check driver)", "SerdeAPI save/load in yaml/json/bincode (real code)"];
const PT_STUB: &[&str] = &["clock: the simulator issues every dt", "storage: in-memory byte buffers behind a simulated Read (short reads, EINTR)", "pyo3 layer: not run"];
const PT_RULE: &str = "a case = generated consist/locomotive parameters (aux loads 0-2 % of the rating, for one unit in twelve 6-20 %; 8 % of the consists constructed around one unit and completed through set_loco_vec) + seeded op list (ticks with closed-loop demand policy, crash/restore, interval changes, over-limit requests), or (C09: 15 %, C01 / C08: 6 % of the runs) the battery component driven alone the same way with charge / discharge buffers (world cmp); C01 only: one run in seven uses steps coarser than the derating bound; distinct = distinct hash of (scenario class, fault kinds fired, reach probes hit); non-trivial = at least 5 accepted ticks";

const TRK_REAL: &[&str] = &["altrios_core::track::{PathTpc::extend/finish, insert_speed, TrainParams::speed_set_applies, Link} (real code)", "SerdeAPI save/load of the half-built PathTpc (real code)"];
const TRK_STUB: &[&str] = &["storage: in-memory byte buffers behind a simulated Read", "train: TrainParams only (no train model in this world)"];
const TRK_RULE: &str = "a case = generated network (corridor with sidings, flips, 0-6 restrictions per link on a coarse grid incl. nested/abutting/duplicate-bound/zero-length, head/tail-end sets, gated sets, per-train-type sets, 2-6 elevation points, headings incl. wrap-around, catenary incl. zero-power sections) + contiguous route + train + seeded history of extend calls (partition, empty extensions, reloads, refused extensions) + (12 %) the train's type dropped from one route link's per-type map (the extension must be refused); C02 / C13: 0.04 % of the runs are train simulations of world trn whose own path profile is judged after every extend_path; distinct = distinct hash of (scenario class, fault kinds fired, probes hit); non-trivial = route of >= 2 links or profile of >= 3 points";

const VAL_REAL: &[&str] = &["altrios_core::track::{Network, Link}::validate and every ObjState::validate below it (real code)", "Network::from_yaml / from_json / from_reader / from_file incl. legacy-layout fallback (real code, real files in a scratch directory)"];
const VAL_STUB: &[&str] = &["reader: simulated Read with short reads, EINTR, hard error and early EOF at seeded bytes"];
const VAL_RULE: &str = "a case = one generated valid network; every mutation kind (62 rule-breaking incl. references dropped on one side only, 13 rule-keeping, 2 non-finite-extent) is applied at every link where it is expressible (enumerated), each judged by validate() and a 6 % seeded sample also by the yaml/json/reader/file/legacy-file load paths; distinct = distinct base networks (hash of the link data); non-trivial = network with >= 2 real links";

const MASS_REAL: &[&str] = &["Mass trait setters/getters of FuelConverter, Generator, ReversibleEnergyStorage, Locomotive (set_mass, set_mu, set_force_max), Consist::mass/force_max (real code)", "SerdeAPI reload incl. init() consistency checks (real code)"];
const MASS_STUB: &[&str] = &["no clock, no schedule: sequential reference-model comparison (weak fit, DESIGN 5)"];
const MASS_RULE: &str = "a case = target (component / locomotive with or without redundant mass data / consist) built from a file + seeded sequence of 1-12 setter calls with all side-effect options, reloads, updates that must be rejected and (locomotives with redundant mass data) a component changed inside the locomotive through its own setter followed by a re-synchronising set_mass; distinct = distinct hash of (target, which fields known initially, fault kinds fired, probes); non-trivial = at least 2 ops";

const TRN_REAL: &[&str] = &["TrainSimBuilder, SetSpeedTrainSim, SpeedLimitTrainSim (step, extend_path, walk, walk_timed_path), BrakingPoints, FricBrake, TrainRes/Strap, PathTpc, Consist and everything below it (real code)", "SerdeAPI save/load of the whole simulation mid-run (real code)"];
const TRN_STUB: &[&str] = &["dispatcher -> train authority channel: simulated (early / just in time / late / batched / empty deliveries)", "clock: the simulator issues every step; dt per run in {0.5, 1, 2} s, irregular trace stamps for set-speed runs", "pyo3 layer / run_speed_limit_train_sims: not run"];
const TRN_RULE: &str = "a case = generated network (0-3 sidings, grades up to the bound, 0-4 extra restrictions per link, very short to very long links) + route + generated train (1-3 car types, 5-150 cars, 2-6 units incl. generated ones and occasionally the shipped hybrid unit, optional mass/length overrides, optional initial front offset, friction-brake ramp-up 0 s or 5-60 s) + optional 'heavy train behind one or two units' scenario (on a long descent, or on an ordinary line with grades at the bound and mostly 2 s steps: stalls) + driver (set-speed trace via shipped walk or simulator steps; speed-limited via shipped walk, walk_timed_path or simulator steps with an authority-delivery schedule) + crash/restore and interval-change points (optionally with a unit given an interval of its own first) + rolling-start / exact-landing set-speed traces, 8 % with a time datum of their own + a run picked up by walk() after steps by hand + restriction sets gated at / one off the train's own axle count (10-35 % of the cases) + car types listed with zero cars (12 %) + consists completed after construction through set_loco_vec (10 %); distinct = distinct hash of (scenario class, fault kinds fired, probes hit); non-trivial = at least 5 (set-speed) / 20 (speed-limited) executed steps";

const DSP_REAL: &[&str] = &["make_est_times (real code, incl. thousands of SpeedLimitTrainSim steps per train)", "run_dispatch with its own scheduler, TrainDisp advance / rewind / free-path search / deadlock check (real code)", "observer hook H3/H4 reading link_disp_auths, links_blocked, TrainDisp views after every train move", "walk_timed_path protocol on the returned plans (sampled)"];
const DSP_STUB: &[&str] = &["the dispatcher's scheduler is NOT replaced: its schedule space is sampled through departure times (incl. ties), train order, lengths, directions, topology and lockouts", "no fault is injected into the dispatcher (it has no I/O); its own rewinds / re-routes are the fault-like events, counted by probes"];
const DSP_RULE: &str = "a case = generated corridor (1-9 sidings of 1-3 links per track that fit / do not fit the trains, optional lockout declarations, up to two extra speed restrictions per link in half of the cases, optionally two-track yards as origins / destinations) + 1-10 generated trains in both directions with departure times incl. ties; distinct = distinct hash of (scenario class, probes hit, the sequence of (train, outcome) moves the dispatcher made); non-trivial = at least 2 trains";

const THR_REAL: &[&str] = &["LocomotiveSimulationVec::walk and every LocomotiveSimulation::walk/step under it (real code)", "the worlds trn / dsp / trk / val / pt re-executed under different RandomState keys, rayon pool sizes and thread histories (real code)", "rayon branch of LocomotiveSimulationVec::walk in local pools of 1, 2, 4, 16 threads (real code, uncontrolled threads: observation, labelled as such)"];
const THR_STUB: &[&str] = &["rayon's pool in the controlled runs: executor seam H2 reproducing try_for_each's contract on shuttle threads (W workers claim from a shared queue; after an error no new claims, in-flight elements finish)", "thread scheduler: shuttle Random / PCT, seeded", "getrandom(2): interposed, RandomState keys derived from the case"];
const THR_RULE: &str = "a case = (a) batch of 1-12 generated locomotive simulations (some failing at a seeded step) + worker count 1-16 + scheduler (Random or PCT depth 2-4) + 24 (quick) / 60 (thorough) seeded schedules, or (b) a case of world trn/dsp/trk/val executed under hash keys A, A, B (trk cases for this purpose mostly with per-train-type restriction maps, half of them with the train's type missing on one link), or (c) a batch on a real rayon pool, or (d) a case of world pt/trn/dsp executed outside any pool and inside private rayon pools of 1, 2-4, 5-16 threads, or (e) a case of world pt/trn/dsp/trk executed on a fresh thread, after a different case on the same thread, and twice on one thread, or (f) Network::set_speed_set_for_train_type on a chain of 40-40000 links with 0-5 failing links, outside any pool and twice inside private pools of 1, 2-4, 5-16 threads; distinct = distinct hash of (scenario class, fault kinds, probes, first 8 distinct claim orders seen); non-trivial = at least 2 elements and 2 workers (a, c) / the inner case's own rule (b)";

const IO_REAL: &[&str] = &["SerdeAPI::{to_yaml,to_json,to_bincode,from_*,from_reader,to_file,from_file,init} of every exported type (real code)", "LocomotiveSimulation / ConsistSimulation / SetSpeedTrainSim / SpeedLimitTrainSim stepping before and after the reload (real code)", "real files in a private scratch directory (file channel)"];
const IO_STUB: &[&str] = &["reader: simulated Read with short reads, EINTR, hard error at a seeded byte", "crash during a save: modelled after the fact by truncating the written bytes (exercised, not armed: nobody promises atomic saves)"];
const IO_RULE: &str = "a case = (a) the zoo of 25 exported types in default / valid states, or (b) a generated locomotive / consist simulation of 4-40 steps with EVERY step index as a crash point x 3 formats (string or faulty-reader channel), with limit checking on or off, optional braking in the first steps, the shipped hybrid unit on 15 % of the locomotives and calibration setters (set_eta_max / set_eta_range) applied to finished components in a fifth of the cases; file saves meet an older, longer file at the path two times in three, or (c) a generated set-speed / speed-limited train simulation (finished or unfinished path) with 8 sampled crash points x 3 formats, plus round trips of its builder, path, network and est-time network, or (d, 30 %) a pt-world run with seeded crash ops and a fault-free twin; distinct = distinct hash of (scenario class, fault kinds fired); non-trivial = at least 5 steps";

pub const PROPS: &[PropInfo] = &[
    PropInfo { id: "C17", world: "io", level: "fault_enumeration", quick_runs: 3_000, thorough_runs: 150_000, rule: IO_RULE, real: IO_REAL, stub: IO_STUB,
        assumptions: &["equality = identical yaml rendering (bit-exact floats; NaN sentinels equal themselves; lazily rebuilt #[serde(skip)] caches are not part of it)", "reload vs original is compared for yaml and bincode; for json only 'no drift' and 1e-9 on resumed totals (statement's own allowance)", "atomicity of to_file against a crash during the write is not claimed"] },
    PropInfo { id: "C18", world: "thr", level: "exploration", quick_runs: 2_000, thorough_runs: 80_000, rule: THR_RULE, real: THR_REAL, stub: THR_STUB,
        assumptions: &["the controlled runs go through the executor seam, not through rayon's own call expression; the real rayon branch is only observed (DESIGN 6)", "hash-order control relies on std resolving getrandom as a weak symbol (start-up self-test guards it)", "data races in safe Rust are excluded by the type system: what a schedule can expose is hidden shared state and order-dependent reduction"] },
    PropInfo { id: "C04", world: "dsp", level: "exploration", quick_runs: 5_000, thorough_runs: 150_000, rule: DSP_RULE, real: DSP_REAL, stub: DSP_STUB,
        assumptions: &["times compared with 1e-6 s, offsets with 1e-6 m of slack", "an authority's window starts at its first-seen arrive_entry (the dispatcher shrinks it when a train exits)", "scenarios whose est-time construction fails are discarded and counted (discarded.setup.*)"] },
    PropInfo { id: "C05", world: "dsp", level: "exploration", quick_runs: 5_000, thorough_runs: 150_000, rule: DSP_RULE, real: DSP_REAL, stub: DSP_STUB,
        assumptions: &["memory safety is decided at the level 'no out-of-range unchecked access on any explored history' (std unsafe-precondition checks live in the debug-assertions build)", "free-running time per pair of consecutive dispatch nodes read from the train's own EstTimeNet (DESIGN C05)"] },
    PropInfo { id: "C15", world: "dsp", level: "exploration", quick_runs: 3_000, thorough_runs: 100_000, rule: DSP_RULE, real: DSP_REAL, stub: DSP_STUB,
        assumptions: &["weak fit for this technique (DESIGN 5): the est-time network is a pure function of (train, network); checked where it is handed to the dispatcher", "all start-to-end walks are sampled (24 seeded walks per graph with alternatives)"] },
    PropInfo { id: "C03", world: "trn", level: "exploration", quick_runs: 6_000, thorough_runs: 150_000, rule: TRN_RULE, real: TRN_REAL, stub: TRN_STUB,
        assumptions: &["grade bound 0.8 % and dt in {0.5, 1, 2} s are domain parameters", "a timed walk's internal extension times are not observable: posted limits are evaluated over the path as it ended up", "bounded liveness is stated only after the last authority has been delivered and the last injected fault has fired"] },
    PropInfo { id: "C07", world: "trn", level: "exploration", quick_runs: 5_000, thorough_runs: 150_000, rule: TRN_RULE, real: TRN_REAL, stub: TRN_STUB,
        assumptions: &["force saved at step k belongs to the position and speed saved at step k-1 (statement)", "coefficients re-aggregated from the car list, mass-weighted over the towed mass as make_train_sim_parts documents", "tolerance 1e-9 relative + 1e-6 N", "the Point method is not produced by TrainSimBuilder and is not exercised"] },
    PropInfo { id: "C11", world: "trn", level: "exploration", quick_runs: 5_000, thorough_runs: 150_000, rule: TRN_RULE, real: TRN_REAL, stub: TRN_STUB,
        assumptions: &["tolerance 1e-9 relative (1e-8 on instantaneous power)"] },
    PropInfo { id: "C12", world: "trn", level: "exploration", quick_runs: 5_000, thorough_runs: 150_000, rule: TRN_RULE, real: TRN_REAL, stub: TRN_STUB,
        assumptions: &["offset advance tolerance 1e-5 m (the code snaps speed to its target within 1e-8 after integrating)", "a front exactly on a boundary may be reported on either adjacent segment"] },
    PropInfo { id: "C14", world: "trn", level: "exploration", quick_runs: 10_000, thorough_runs: 400_000, rule: TRN_RULE, real: TRN_REAL, stub: TRN_STUB,
        assumptions: &["the upper clip is min(published pwr_out_max, previous wheel power + published rate x the step's own dt), computed from published consist state; the lower clip is the sum of the units' drivetrain ratings", "tolerance 1e-9 relative"] },
    PropInfo { id: "C20", world: "mass", level: "exploration", quick_runs: 60_000, thorough_runs: 3_000_000, rule: MASS_RULE, real: MASS_REAL, stub: MASS_STUB,
        assumptions: &["weak fit for this technique: only the rejected-update atomicity clause and the reload of setter-accepted states involve a fault; the algebra is a sequential reference-model comparison", "train static mass = cars + consist is checked in the trn world on built simulations"] },
    PropInfo { id: "C16", world: "val", level: "fault_enumeration", quick_runs: 3_000, thorough_runs: 150_000, rule: VAL_RULE, real: VAL_REAL, stub: VAL_STUB,
        assumptions: &["reading fixed in DESIGN C16: speed sections may overlap and nest, catenary sections may not overlap", "infinite lengths / speeds / powers are outside what the rules decide: only 'no panic' is required for them", "lockout declarations are not part of the stated rules and are not mutated", "bincode is not an advertised network load path for this property (C17 covers it)"] },
    PropInfo { id: "C02", world: "trk", level: "exploration", quick_runs: 1_000_000, thorough_runs: 20_000_000, rule: TRK_RULE, real: TRK_REAL, stub: TRK_STUB,
        assumptions: &["positive speeds only (negative 'reverse' limits are outside the domain)", "exact comparison: the code only copies and compares speeds", "PathTpc::clear/reindex/recalc_speeds are not reachable from the simulations and not exercised"] },
    PropInfo { id: "C13", world: "trk", level: "exploration", quick_runs: 1_000_000, thorough_runs: 20_000_000, rule: TRK_RULE, real: TRK_REAL, stub: TRK_STUB,
        assumptions: &["same input space as C02", "a restriction covers [start, end) (+ train length for tail-end sets)"] },
    PropInfo { id: "C06", world: "trk", level: "exploration", quick_runs: 1_000_000, thorough_runs: 20_000_000, rule: TRK_RULE, real: TRK_REAL, stub: TRK_STUB,
        assumptions: &["reference comparisons 1e-9 relative; partition-vs-one-call comparison bit-exact (PartialEq)", "nothing is promised about a path object after a refused extension (it is discarded)"] },
    PropInfo { id: "C01", world: "pt", level: "exploration", quick_runs: 20_000, thorough_runs: 1_000_000, rule: PT_RULE, real: PT_REAL, stub: PT_STUB,
        assumptions: &["engine on (engine-off steps belong to C08)", "efficiency maps, ratings, battery maps, SOC inside the generator domain (DESIGN 2.3)", "tolerance 1e-9 relative to the largest term (measured residual of the unchanged tree ~1e-14)"] },
    PropInfo { id: "C08", world: "pt", level: "exploration", quick_runs: 20_000, thorough_runs: 1_000_000, rule: PT_RULE, real: PT_REAL, stub: PT_STUB,
        assumptions: &["efficiency map values in (0,1] (generator domain)", "tolerance 1e-9 relative + 1e-6 W on inequalities"] },
    PropInfo { id: "C09", world: "pt", level: "exploration", quick_runs: 20_000, thorough_runs: 1_000_000, rule: PT_RULE, real: PT_REAL, stub: PT_STUB,
        assumptions: &["assert_limits = true", "dt <= 0.5*ramp_width*capacity*eta_min/rating (largest step for which linear derating can keep SOC inside its window)", "the code's own acceptance tolerance of 1e-3 at component limits is part of the oracle"] },
    PropInfo { id: "C10", world: "pt", level: "exploration", quick_runs: 20_000, thorough_runs: 1_000_000, rule: PT_RULE, real: PT_REAL, stub: PT_STUB,
        assumptions: &["RESGreedy and Proportional only (GoldenSectionSearch / FrontAndBack are todo!() in the code)", "conservation to 1e-8 relative (the code's own notion)"] },
    PropInfo { id: "C19", world: "pt", level: "exploration", quick_runs: 12_000, thorough_runs: 600_000, rule: PT_RULE, real: PT_REAL, stub: PT_STUB,
        assumptions: &["save intervals None, 1, n >= 2 (0 is not an interval)", "intervals are changed only at the top level (statement)"] },
];

/// watchdog budget per run in CPU seconds of the worker process (wall-clock backstop 30 x; decides nothing except "a run hung")
pub fn run_timeout_s(prop: &str) -> u64 {
    match info(prop).map(|i| i.world) {
        Some("trn") | Some("dsp") => 40,
        _ => 90,
    }
}

pub fn info(prop: &str) -> Option<&'static PropInfo> {
    PROPS.iter().find(|p| p.id == prop)
}

/// a case of the world that serves `world_prop`, generated with another property's focus
pub fn generate_world(world_prop: &str, focus: &str, rng: &mut Rng, thorough: bool) -> Case {
    match info(world_prop).map(|i| i.world) {
        Some("trk") => Case::Trk(crate::trk::generate(rng, focus, thorough)),
        Some("val") => Case::Val(crate::val::generate(rng, focus, thorough)),
        Some("trn") => Case::Trn(crate::trn::generate(rng, focus, thorough)),
        Some("dsp") => Case::Dsp(crate::dsp::generate(rng, focus, thorough)),
        _ => Case::Pt(crate::pt::generate(rng, focus, thorough)),
    }
}

pub fn generate(prop: &str, rng: &mut Rng, thorough: bool) -> Case {
    // some properties span several worlds: the world of a run is one more seeded choice
    let world = match prop {
        "C19" => Some(if rng.chance(0.35) { "trn" } else { "pt" }),
        "C20" => Some(if rng.chance(0.05) { "trn" } else { "mass" }),
        // C17: the io world enumerates crash points; the pt world adds seeded crash ops with a fault-free twin
        "C17" => Some(if rng.chance(0.3) { "pt" } else { "io" }),
        // the battery driven alone, with charge / discharge buffers (C09 quantifies over buffers; the
        // locomotive models never pass any): a share of the C09 runs and a smaller share of C01 / C08
        "C09" => Some(if rng.chance(0.15) { "cmp" } else { "pt" }),
        "C01" | "C08" => Some(if rng.chance(0.06) { "cmp" } else { "pt" }),
        // the speed profile of a train simulation's own path (train parameters derived from the car list by
        // TrainConfig, path extended while the train moves): a small share, these runs cost 1000 x a trk case
        "C13" | "C02" => Some(if rng.chance(0.0004) { "trn" } else { "trk" }),
        _ => info(prop).map(|i| i.world),
    };
    match world {
        Some("pt") => Case::Pt(crate::pt::generate(rng, prop, thorough)),
        Some("trk") => Case::Trk(crate::trk::generate(rng, prop, thorough)),
        Some("val") => Case::Val(crate::val::generate(rng, prop, thorough)),
        Some("mass") => Case::Mass(crate::mass::generate(rng, prop, thorough)),
        Some("trn") => Case::Trn(crate::trn::generate(rng, prop, thorough)),
        Some("dsp") => Case::Dsp(crate::dsp::generate(rng, prop, thorough)),
        Some("thr") => Case::Thr(crate::thr::generate(rng, prop, thorough)),
        Some("io") => Case::Io(crate::io::generate(rng, prop, thorough)),
        Some("cmp") => Case::Cmp(crate::cmp::generate(rng, prop, thorough)),
        _ => panic!("no world for property {prop}"),
    }
}

pub fn execute(case: &Case, ctx: &mut Ctx) {
    match case {
        Case::Pt(c) => crate::pt::execute(c, ctx),
        Case::Trk(c) => crate::trk::execute(c, ctx),
        Case::Val(c) => crate::val::execute(c, ctx),
        Case::Mass(c) => crate::mass::execute(c, ctx),
        Case::Trn(c) => crate::trn::execute(c, ctx),
        Case::Dsp(c) => crate::dsp::execute(c, ctx),
        Case::Thr(c) => crate::thr::execute(c, ctx),
        Case::Io(c) => crate::io::execute(c, ctx),
        Case::Cmp(c) => crate::cmp::execute(c, ctx),
    }
}

pub fn shrink(case: &Case, v: &Violation) -> Vec<Case> {
    match case {
        Case::Val(c) => crate::val::shrink(c, v).into_iter().map(Case::Val).collect(),
        Case::Mass(c) => crate::mass::shrink(c).into_iter().map(Case::Mass).collect(),
        Case::Trn(c) => crate::trn::shrink(c).into_iter().map(Case::Trn).collect(),
        Case::Dsp(c) => crate::dsp::shrink(c).into_iter().map(Case::Dsp).collect(),
        Case::Thr(c) => crate::thr::shrink(c).into_iter().map(Case::Thr).collect(),
        Case::Io(c) => crate::io::shrink(c).into_iter().map(Case::Io).collect(),
        Case::Pt(c) => crate::pt::shrink(c).into_iter().map(Case::Pt).collect(),
        Case::Cmp(c) => crate::cmp::shrink(c).into_iter().map(Case::Cmp).collect(),
        Case::Trk(c) => crate::trk::shrink(c).into_iter().map(Case::Trk).collect(),
    }
}

/// which property a panic belongs to, decided by world, layer and panic location (None = unarmed event)
pub fn panic_property(case: &Case, layer: &str, location: &str) -> Option<&'static str> {
    match case {
        Case::Pt(_) => {
            if location.contains("consist_utils.rs") || location.contains("utils/mod.rs") {
                Some("C10")
            } else {
                None
            }
        }
        // building a path must never panic: speed-profile code -> C13, everything else in this world -> C06
        Case::Val(_) => Some("C16"),
        // a component driven inside its published limits must not panic: limits / interpolation code -> C09
        Case::Cmp(_) => Some("C09"),
        Case::Mass(_) => Some("C20"),
        Case::Thr(_) => Some("C18"),
        // storage code panicking is C17's; a panic of the simulation code while an io-world run steps it is not
        Case::Io(_) => {
            if location.contains("traits.rs") || location.contains("serde") || location.contains("bincode") || location.contains("link_idx.rs") {
                Some("C17")
            } else {
                None
            }
        }
        // by the layer the driver was in: est-time construction steps trains (C03), the graph code is C15's,
        // everything inside run_dispatch is C05's ("never aborts on inputs accepted by validation and est-time construction")
        Case::Dsp(_) => match layer {
            "dispatch" | "abort" => Some("C05"),
            "est-time-graph" => Some("C15"),
            "train-stepping" => {
                if location.contains("est_times") {
                    Some("C15")
                } else {
                    Some("C03")
                }
            }
            _ => None,
        },
        // a train simulation ends with Ok or a descriptive error, never a panic (C03); panics in the split code belong to C10
        Case::Trn(_) => {
            if location.contains("consist_utils.rs") {
                Some("C10")
            } else {
                Some("C03")
            }
        }
        Case::Trk(_) => {
            if location.contains("speed_point.rs") || location.contains("speed_limit.rs") {
                Some("C13")
            } else {
                Some("C06")
            }
        }
    }
}
