//! World `dsp` (dispatch): N train actors contending for track segments under the real meet-pass
//! dispatcher. The dispatcher's own scheduler is kept; its schedule space is sampled through what induces
//! it (departure times incl. ties, train order, lengths, directions, topology, lockouts). The observer hook
//! (H3/H4) exposes the lock tables after every train move; the occupancy-interval reference (C04) is
//! evaluated on every snapshot, plan validity (C05) on the result, the est-time-network invariants (C15)
//! where the train simulation hands its graph to the dispatcher, and on a sample of scenarios every train
//! then walks its timed plan (C03 et al. through the trn world's monitors).

use crate::core::*;
use crate::net::*;
use crate::rng::Rng;
use crate::trn;
use altrios_core::meet_pass::disp_structs::*;
use altrios_core::meet_pass::dispatch::run_dispatch;
use altrios_core::meet_pass::est_times::{make_est_times, EstTime, EstTimeNet};
use altrios_core::meet_pass::train_disp::TrainDispView;
use altrios_core::track::*;
use altrios_core::train::*;
use altrios_core::uc;
use altrios_core::verif_hooks;
use serde::{Deserialize, Serialize};
use std::cell::RefCell;
use std::collections::{BTreeMap, HashMap};

#[derive(Serialize, Deserialize, Clone, Debug)]
pub struct TrainCase {
    pub spec: trn::TrainSpec,
    pub fwd: bool,
    pub depart: f64,
}

#[derive(Serialize, Deserialize, Clone, Debug, PartialEq)]
pub enum Degenerate {
    None,
    /// a train whose destination cannot be reached from its origin (must be an error naming the train)
    NoRoute,
}

#[derive(Serialize, Deserialize, Clone, Debug)]
pub struct Case {
    pub links: Vec<Link>,
    pub n_sidings: usize,
    pub trains: Vec<TrainCase>,
    pub degenerate: Degenerate,
    /// also let every train walk its timed plan (expensive)
    pub walk_plans: bool,
    pub hash_seed: u64,
    /// origins / destinations are the two tracks of the first / last passing siding (a two-track yard at either
    /// end: several CONNECTED origin and destination segments per train) instead of the terminal mains
    #[serde(default)]
    pub yard_ends: bool,
}

pub fn generate(rng: &mut Rng, focus: &str, thorough: bool) -> Case {
    let mut o = NetOpts::small(rng);
    // the dispatcher fixes at most 10 miles of a train's path per move and searches 30 miles ahead: meets
    // and passes only arise on corridors much longer than that
    o.n_sidings = match rng.below(10) {
        0 => rng.usize(1, 2),
        1 | 2 => rng.usize(3, 4),
        3..=7 => rng.usize(5, 7),
        _ => rng.usize(8, 9),
    };
    o.grade_bound = *rng.pick(&[0.0, 0.002, 0.004, 0.006]);
    o.main_len = if rng.chance(0.15) { (3000.0, 9000.0) } else { (12000.0, 30000.0) };
    // sidings that fit and do not fit the trains
    o.siding_len = if rng.chance(0.25) { (400.0, 1200.0) } else { (1800.0, 5000.0) };
    // up to two extra restrictions per link in half of the scenarios (until session 3: none - the braking-point
    // defect 5d8d419 made est-time construction fail on them; a scratch run with them was clean)
    o.max_restr = if rng.chance(0.5) { 0 } else { rng.usize(1, 2) };
    o.tail_end_only = true;
    o.params = false;
    o.by_type = false;
    o.headings = rng.chance(0.3);
    o.cat = false;
    o.lockouts = rng.chance(0.25);
    o.base_speed = (10.0, 26.0);
    let mut links = gen_network(rng, &o);
    // a limit drop inside the first train length (+ braking distance) of a route makes the train simulation refuse
    // the scenario at set-up: links a train can start on keep their whole-link limit only
    {
        let nf = n_fwd(o.n_sidings);
        let fl = |i: usize| 2 * nf + 1 - i;
        let mut starts: Vec<usize> = vec![1, nf];
        if o.n_sidings >= 1 {
            starts.extend([2, 3, nf - 2, nf - 1]);
        }
        let all: Vec<usize> = starts.iter().flat_map(|i| [*i, fl(*i)]).filter(|i| *i >= 1 && *i < links.len()).collect();
        for i in all {
            let len = links[i].length;
            let whole = |ss: &mut SpeedSet| ss.speed_limits.retain(|r| r.offset_start.value == 0.0 && r.offset_end == len);
            if let Some(ss) = links[i].speed_set.as_mut() {
                whole(ss);
            }
            for ss in links[i].speed_sets.values_mut() {
                whole(ss);
            }
        }
    }
    let yard_ends = o.n_sidings >= 2 && rng.chance(if focus == "C15" { 0.35 } else { 0.2 });
    // Sidings (and some mains) made of several links, as in the repository's own networks: only then can a
    // train wait inside a siding, clear of the main, and opposing trains be on the line at the same time.
    if rng.chance(0.75) {
        let nf = n_fwd(o.n_sidings);
        for i in 1..=nf {
            let is_main = (i - 1) % 3 == 0;
            let len = links[i].length.value;
            // yard tracks stay whole (an origin is the first, a destination the last link of its track)
            if yard_ends && (i == 2 || i == 3 || i == nf - 2 || i == nf - 1) {
                continue;
            }
            // the terminal mains stay whole (origin / destination = one link, longer than any train)
            if is_main && (i == 1 || i == nf || !rng.chance(0.3)) {
                continue;
            }
            if !is_main && rng.chance(0.1) {
                continue;
            }
            if len < 300.0 {
                continue;
            }
            // stub - body - stub, or two halves, or one stub
            let stub = (rng.usize(3, 20) as f64 * 10.0).min(len / 4.0).round();
            match rng.below(4) {
                0 => {
                    split_link(&mut links, i, (len / 2.0).round());
                }
                1 => {
                    split_link(&mut links, i, len - stub);
                }
                _ => {
                    let j = split_link(&mut links, i, stub);
                    let lj = links[j].length.value;
                    split_link(&mut links, j, lj - stub);
                }
            }
        }
    }
    let n = match focus {
        "C15" => rng.usize(1, 3),
        _ => match rng.below(10) {
            0 => 1,
            1 | 2 => 2,
            3..=6 => rng.usize(3, 5),
            _ => rng.usize(5, if thorough { 10 } else { 8 }),
        },
    };
    let window: f64 = *rng.pick(&[0.0, 300.0, 900.0, 1800.0, 3600.0]);
    let p_fwd = *rng.pick(&[0.5, 0.5, 0.3, 0.8, 1.0]);
    let trains = (0..n)
        .map(|_| {
            let mut spec = trn::gen_train(rng, 110);
            // heavy enough trains (see open finding C03-stops-short-of-window...) and shipped units only
            for u in spec.consist.iter_mut() {
                if matches!(u, trn::ConUnit::Gen(_)) {
                    *u = trn::ConUnit::Conv;
                }
            }
            spec.use_cd_area_vec = false;
            TrainCase {
                spec,
                fwd: rng.chance(p_fwd),
                // deliberate ties
                depart: if rng.chance(0.3) { (rng.below(4) as f64) * (window / 4.0).max(1.0) } else { Rng::round_sig(rng.range(0.0, window.max(1.0)), 4) },
            }
        })
        .collect();
    Case {
        links,
        n_sidings: o.n_sidings,
        trains,
        degenerate: if rng.chance(0.04) { Degenerate::NoRoute } else { Degenerate::None },
        walk_plans: rng.chance(if focus == "C03" { 1.0 } else { 0.08 }),
        hash_seed: rng.next(),
        yard_ends,
    }
}

fn loc(id: &str, l: usize) -> Location {
    Location { location_id: id.into(), offset: 0.0 * uc::M, link_idx: LinkIdx::new(l as u32), is_front_end: false, grid_emissions_region: "x".into(), electricity_price_region: "x".into(), liquid_fuel_price_region: "x".into() }
}

pub fn location_map(ns: usize, yard_ends: bool) -> HashMap<String, Vec<Location>> {
    let nf = n_fwd(ns);
    let mut lm: HashMap<String, Vec<Location>> = HashMap::new();
    if yard_ends && ns >= 2 {
        let fl = |i: usize| 2 * nf + 1 - i;
        lm.insert("A".into(), vec![loc("A", 2), loc("A", 3), loc("A", fl(2)), loc("A", fl(3))]);
        lm.insert("B".into(), vec![loc("B", nf - 2), loc("B", nf - 1), loc("B", fl(nf - 2)), loc("B", fl(nf - 1))]);
        return lm;
    }
    lm.insert("A".into(), vec![loc("A", 1), loc("A", 2 * nf)]);
    lm.insert("B".into(), vec![loc("B", nf), loc("B", nf + 1)]);
    // a place no train can leave towards A or B in the right direction
    lm
}

pub fn build_sims(case: &Case) -> anyhow::Result<Vec<SpeedLimitTrainSim>> {
    let lm = location_map(case.n_sidings, case.yard_ends);
    let mut sims = vec![];
    for (t, tc) in case.trains.iter().enumerate() {
        let cfg = trn::build_train_config(&tc.spec)?;
        let con = trn::build_consist(&tc.spec, None);
        let (o, d) = if tc.fwd { ("A", "B") } else { ("B", "A") };
        let its = InitTrainState::new(Some(tc.depart * uc::S), None, None);
        let tsb = TrainSimBuilder::new(format!("train{t}"), cfg, con, Some(o.into()), Some(d.into()), Some(its));
        let mut s = tsb.make_speed_limit_train_sim(&lm, None, None, None)?;
        if case.degenerate == Degenerate::NoRoute && t == case.trains.len() - 1 {
            // destination = the first link of the opposite direction: it cannot be reached from either origin link
            let nf = n_fwd(case.n_sidings);
            s.dests = if tc.fwd { vec![loc("X", nf + 1)] } else { vec![loc("X", 1)] };
        }
        sims.push(s);
    }
    Ok(sims)
}

// ------------------------------------------------------------------------------------------------
// C15: estimated-time network invariants
// ------------------------------------------------------------------------------------------------

pub fn check_est_net(ctx: &mut Ctx, t: usize, et: &EstTimeNet, links: &[Link], origs: &[usize], dests: &[usize], train_len: f64, rng: &mut Rng) {
    let v = &et.val;
    let n = v.len();
    let viol = |ctx: &mut Ctx, clause: &str, detail: String, sig: Sig| ctx.violate_sig("C15", "est_time_net", clause, format!("train {t}: {detail}"), sig);
    if n < 3 {
        viol(ctx, "graph has a start and an end", format!("{n} nodes"), Sig::new());
        return;
    }
    ctx.add("stat.est_nodes", n as u64);
    let in_range = |i: EstIdx| (i as usize) < n;
    for (i, e) in v.iter().enumerate() {
        for x in [e.idx_next, e.idx_next_alt, e.idx_prev, e.idx_prev_alt] {
            if !in_range(x) {
                viol(ctx, "forward and backward links mutually consistent", format!("node {i} refers to node {x} of {n}"), Sig::new());
                return;
            }
        }
    }
    let mut n_alt = 0;
    for (i, e) in v.iter().enumerate() {
        // finite, non-negative times and durations
        let reached_via_alt = e.idx_prev != 0 && v[e.idx_prev as usize].idx_next_alt as usize == i || (i > 0 && v.iter().any(|p| p.idx_next_alt as usize == i));
        if !(e.time_sched.value.is_finite() && e.time_sched.value >= 0.0) {
            let mut sg = sig1("field", "time_sched");
            sg.insert("finite".into(), e.time_sched.value.is_finite().into());
            sg.insert("on_alternate_branch".into(), on_alt_branch(v, i).into());
            sg.insert("value".into(), e.time_sched.value.into());
            sg.insert("is_root_node".into(), (i <= 1).into());
            sg.insert("root_time_sched".into(), v[0].time_sched.value.into());
            sg.insert("graph_has_alternates".into(), v.iter().any(|x| x.idx_next_alt != 0).into());
            sg.insert("max_time_sched".into(), v.iter().map(|x| x.time_sched.value).filter(|x| x.is_finite()).fold(0.0, f64::max).into());
            let _ = reached_via_alt;
            viol(ctx, "scheduled times finite and non-negative", format!("node {i} ({:?} link {}) time_sched {}", e.link_event.est_type, e.link_event.link_idx.idx(), e.time_sched.value), sg);
        }
        if !(e.time_to_next.value.is_finite() && e.time_to_next.value >= -1e-9) {
            viol(ctx, "step durations finite and non-negative", format!("node {i} time_to_next {}", e.time_to_next.value), sig1("field", "time_to_next"));
        }
        if !(e.dist_to_next.value.is_finite() && e.dist_to_next.value >= -1e-9) {
            viol(ctx, "step durations finite and non-negative", format!("node {i} dist_to_next {}", e.dist_to_next.value), sig1("field", "dist_to_next"));
        }
        // link consistency
        if e.idx_next != 0 {
            let nx = &v[e.idx_next as usize];
            if !(nx.idx_prev as usize == i || nx.idx_prev_alt as usize == i) {
                viol(ctx, "forward and backward links mutually consistent", format!("node {i} -> next {} which points back to {} / {}", e.idx_next, nx.idx_prev, nx.idx_prev_alt), Sig::new());
            }
            let d = nx.time_sched.value - (e.time_sched.value + e.time_to_next.value);
            if nx.idx_prev as usize == i {
                if d.abs() > 1e-6 {
                    viol(ctx, "scheduled time = primary predecessor's time + its duration", format!("node {i} -> {}: {} + {} vs {} (diff {d:.6})", e.idx_next, e.time_sched.value, e.time_to_next.value, nx.time_sched.value), Sig::new());
                }
            } else if d > 1e-6 {
                viol(ctx, "no node scheduled later than any predecessor allows", format!("node {i} -> {} (as alternate predecessor): later by {d:.6}", e.idx_next), Sig::new());
            }
        }
        if e.idx_next_alt != 0 {
            n_alt += 1;
            let nx = &v[e.idx_next_alt as usize];
            if nx.idx_prev as usize != i {
                viol(ctx, "forward and backward links mutually consistent", format!("node {i} -> next_alt {} whose prev is {}", e.idx_next_alt, nx.idx_prev), Sig::new());
            }
        }
        if i > 0 {
            let pv = &v[e.idx_prev as usize];
            if !(pv.idx_next as usize == i || pv.idx_next_alt as usize == i) {
                viol(ctx, "forward and backward links mutually consistent", format!("node {i} <- prev {} which points forward to {} / {}", e.idx_prev, pv.idx_next, pv.idx_next_alt), Sig::new());
            }
            if e.idx_prev_alt != 0 {
                let pa = &v[e.idx_prev_alt as usize];
                if !(pa.idx_next as usize == i || pa.idx_next_alt as usize == i) {
                    viol(ctx, "forward and backward links mutually consistent", format!("node {i} <- prev_alt {} which points forward to {} / {}", e.idx_prev_alt, pa.idx_next, pa.idx_next_alt), Sig::new());
                }
            }
        }
    }
    if n_alt > 0 {
        ctx.hit("probe.est.has_alternative_routes");
    }
    // every walk from the start reaches the end node: no dead end, no cycle
    let end = match (0..n).filter(|i| *i > 0 && v[*i].idx_next == 0).collect::<Vec<_>>()[..] {
        [e] => e,
        ref ends => {
            viol(ctx, "every walk reaches the end node", format!("{} nodes without successor: {:?}", ends.len(), &ends[..ends.len().min(6)]), Sig::new());
            return;
        }
    };
    let mut state = vec![0u8; n]; // 0 unvisited, 1 on stack, 2 reaches end
    let mut stack: Vec<(usize, u8)> = vec![(0, 0)];
    let mut cyc = false;
    while let Some((i, phase)) = stack.pop() {
        if phase == 0 {
            if state[i] == 2 {
                continue;
            }
            if state[i] == 1 {
                cyc = true;
                break;
            }
            state[i] = 1;
            stack.push((i, 1));
            for nx in [v[i].idx_next as usize, v[i].idx_next_alt as usize] {
                if nx != 0 && state[nx] != 2 {
                    if state[nx] == 1 {
                        cyc = true;
                    }
                    stack.push((nx, 0));
                }
            }
        } else {
            state[i] = 2;
        }
        if cyc {
            break;
        }
    }
    if cyc {
        viol(ctx, "every walk reaches the end node", "cycle among est-time nodes".into(), Sig::new());
        return;
    }
    // sampled start-to-end walks: contiguous route from an origin to a destination, cleared after entered
    let n_walks = if n_alt == 0 { 1 } else { 24 };
    for w in 0..n_walks {
        let mut i = 0usize;
        let mut arrives: Vec<usize> = vec![];
        let mut clears: Vec<usize> = vec![];
        let mut steps = 0;
        let mut seq_ok = true;
        // distance travelled by the front along the primary walk (walk 0), at each arrive / clear event
        let mut dist = 0.0f64;
        let mut arrive_at: Vec<(usize, f64)> = vec![];
        loop {
            let e = &v[i];
            match e.link_event.est_type {
                EstType::Arrive => {
                    arrives.push(e.link_event.link_idx.idx());
                    arrive_at.push((e.link_event.link_idx.idx(), dist));
                }
                EstType::Clear => {
                    let l = e.link_event.link_idx.idx();
                    if !arrives.contains(&l) {
                        seq_ok = false;
                    }
                    clears.push(l);
                    // a clear event of segment L is the tail passing the ENTRY of L (the dispatcher's clear_entry): it
                    // comes one train length after the front entered L (not for the origin, where the train stands)
                    if w == 0 && train_len > 0.0 {
                        if let Some(k) = arrive_at.iter().position(|x| x.0 == l) {
                            if k > 0 {
                                let run = dist - arrive_at[k].1;
                                if !close(run, train_len, 1e-6, 1e-3, 0.0) {
                                    viol(ctx, "the tail passes a segment's entry one train length after the front", format!("walk 0: clear event of link {l} comes {run:.3} m after its arrive event, train length {train_len:.3} m"), Sig::new());
                                }
                            }
                        }
                    }
                }
                _ => {}
            }
            if w == 0 {
                dist += e.dist_to_next.value;
            }
            if i == end {
                break;
            }
            let (a, b) = (e.idx_next as usize, e.idx_next_alt as usize);
            i = if b != 0 && (w == 0 || rng.chance(0.5)) { if w == 0 { a } else { b } } else { a };
            steps += 1;
            if i == 0 || steps > n + 2 {
                viol(ctx, "every walk reaches the end node", format!("walk {w} does not reach node {end}"), Sig::new());
                return;
            }
        }
        if !seq_ok {
            viol(ctx, "each segment cleared after it is entered", format!("walk {w}: arrives {:?} clears {:?}", arrives, clears), Sig::new());
        }
        if arrives.is_empty() || !origs.contains(&arrives[0]) || !dests.contains(arrives.last().unwrap()) {
            viol(ctx, "walk runs from an origin to a destination", format!("walk {w}: arrive events {:?}, origins {:?}, destinations {:?}", arrives, origs, dests), Sig::new());
        }
        for p in arrives.windows(2) {
            let l = &links[p[0]];
            if !(l.idx_next.idx() == p[1] || l.idx_next_alt.idx() == p[1]) {
                viol(ctx, "walk describes a contiguous route", format!("walk {w}: {} -> {} is not a connection of the network (arrives {:?})", p[0], p[1], arrives), Sig::new());
                break;
            }
        }
        // cleared in the order entered
        let order: Vec<usize> = arrives.iter().filter(|l| clears.contains(l)).copied().collect();
        if order != clears {
            viol(ctx, "each segment cleared after it is entered", format!("walk {w}: clear order {:?} vs entry order {:?}", clears, order), Sig::new());
        }
    }
    ctx.hit("stat.est_nets_checked");
}

/// node i lies on a branch that is entered through an alternate link (idx_next_alt of some ancestor)
fn on_alt_branch(v: &[EstTime], mut i: usize) -> bool {
    let mut guard = 0;
    while i != 0 && guard < v.len() + 2 {
        let p = v[i].idx_prev as usize;
        if v[p].idx_next_alt as usize == i && v[p].idx_next as usize != i {
            return true;
        }
        if v[i].idx_prev_alt != 0 {
            return true; // a join: reached through an alternate predecessor as well
        }
        i = p;
        guard += 1;
    }
    false
}

// ------------------------------------------------------------------------------------------------
// C04: occupancy-interval reference on every observer snapshot
// ------------------------------------------------------------------------------------------------

struct Obs {
    /// per train: (committed node sequence, free idx) at the previous snapshot
    prev_committed: Vec<Vec<(u32, u8, u32)>>,
    committed_changed: u64,
    stale_blocks: u64,
    fwd: Vec<bool>,
    links: Vec<Link>,
    n_trains: usize,
    spacing: f64,
    calls: u64,
    viol: Vec<(String, String, Sig)>,
    first_seen: BTreeMap<(usize, usize), (usize, f64)>,
    last_free: Vec<usize>,
    last_path: Vec<Vec<usize>>,
    rewinds: u64,
    reroutes: u64,
    two_en_route: u64,
    opposing_en_route: u64,
    moves: Vec<(usize, u8)>,
    final_views: Vec<TrainDispView>,
    budget_hit: bool,
    trace: u64,
}

thread_local! {
    static OBS: RefCell<Option<Obs>> = const { RefCell::new(None) };
}

const T_EPS: f64 = 1e-6;

fn observe(s: &verif_hooks::DispatchSnapshot) {
    OBS.with(|o| {
        let mut g = o.borrow_mut();
        let Some(ob) = g.as_mut() else { return };
        ob.calls += 1;
        if ob.calls > 200_000 {
            ob.budget_hit = true;
            return;
        }
        let is_final = s.phase == "final";
        let auths = s.link_disp_auths;
        let add = |ob: &mut Obs, clause: &str, detail: String, sig: Sig| {
            if ob.viol.len() < 16 && !ob.viol.iter().any(|v| v.0 == clause) {
                ob.viol.push((clause.to_string(), format!("snapshot {} ({}{}): {detail}", ob.calls, s.phase, s.train_idx_curr.map(|t| format!(", train {} moved", t.get())).unwrap_or_default()), sig));
            }
        };
        // keep each authority's first-seen arrive_entry (the dispatcher overwrites it when a train exits)
        for (l, a) in auths.iter().enumerate() {
            let len = a.len();
            let stale: Vec<(usize, usize)> = ob.first_seen.range((l, len)..(l + 1, 0)).map(|(k, _)| *k).collect();
            for k in stale {
                ob.first_seen.remove(&k);
            }
            for (i, x) in a.iter().enumerate().skip(1) {
                let t = x.train_idx.map(|t| t.get() as usize).unwrap_or(0);
                match ob.first_seen.get(&(l, i)) {
                    Some((t0, _)) if *t0 == t => {}
                    _ => {
                        ob.first_seen.insert((l, i), (t, x.arrive_entry.value));
                    }
                }
            }
        }
        let entry = |ob: &Obs, l: usize, i: usize, x: &DispAuth| -> f64 { ob.first_seen.get(&(l, i)).map(|v| v.1.min(x.arrive_entry.value)).unwrap_or(x.arrive_entry.value) };
        for l in 1..auths.len() {
            // opposite direction on the same physical segment, and mutually exclusive segments
            let f = ob.links[l].idx_flip.idx();
            let mut partners: Vec<(usize, &'static str)> = vec![];
            if f > l {
                partners.push((f, "opposite directions on one segment"));
            }
            for p in &ob.links[l].link_idxs_lockout {
                if p.idx() > l && p.idx() != f {
                    partners.push((p.idx(), "mutually exclusive segments"));
                }
            }
            for (p, what) in partners {
                for (ia, a) in auths[l].iter().enumerate().skip(1) {
                    for (ib, b) in auths[p].iter().enumerate().skip(1) {
                        if a.train_idx != b.train_idx {
                            let (a0, a1, b0, b1) = (entry(ob, l, ia, a), a.clear_exit.value, entry(ob, p, ib, b), b.clear_exit.value);
                            if a0 < b1 - T_EPS && b0 < a1 - T_EPS {
                                let mut sg = sig1("kind", what);
                                sg.insert("final".into(), is_final.into());
                                add(ob, if what.starts_with("opposite") { "no two trains in opposite directions on one segment at overlapping times" } else { "no train on a segment while another holds a mutually exclusive one" }, format!("links {l}/{p}: train {:?} [{a0:.1}, {a1:.1}] overlaps train {:?} [{b0:.1}, {b1:.1}]", a.train_idx.map(|t| t.get()), b.train_idx.map(|t| t.get())), sg);
                            }
                        }
                    }
                }
            }
            // following trains on one directed segment: headway and no overtaking
            for (i, w) in auths[l].windows(2).enumerate().skip(1) {
                let (p, n) = (&w[0], &w[1]);
                if p.clear_entry.value.is_finite() && n.arrive_entry.value.is_finite() {
                    let ne = entry(ob, l, i + 1, n);
                    // "following each other" = consecutive users of the physical segment: when a train of the
                    // opposite direction ran over it in between, the later train follows that one (and must
                    // wait for it to clear, which the disjointness clause above decides)
                    let opposing_between = auths[f].iter().enumerate().skip(1).any(|(ib, b)| b.train_idx != n.train_idx && b.clear_exit.value.is_finite() && b.clear_exit.value > p.clear_exit.value - T_EPS && entry(ob, f, ib, b) < ne + T_EPS);
                    if ne < p.clear_entry.value + ob.spacing - T_EPS && !opposing_between {
                        add(ob, "following trains keep the configured headway", format!("link {l}: train {:?} enters at {ne:.1}, previous train {:?} cleared the entry at {:.1} (headway {})", n.train_idx.map(|t| t.get()), p.train_idx.map(|t| t.get()), p.clear_entry.value, ob.spacing), sig1("final", is_final));
                    }
                }
                for (name, a, b) in [("arrive_exit", p.arrive_exit.value, n.arrive_exit.value), ("clear_entry", p.clear_entry.value, n.clear_entry.value), ("clear_exit", p.clear_exit.value, n.clear_exit.value)] {
                    if a.is_finite() && b.is_finite() && b < a - T_EPS {
                        add(ob, "following trains never change order inside a segment", format!("link {l}: {name} of train {:?} ({b:.1}) before that of the train ahead {:?} ({a:.1})", n.train_idx.map(|t| t.get()), p.train_idx.map(|t| t.get())), sig1("final", is_final));
                    }
                }
                if n.offset_front.value.is_finite() && p.offset_back.value.is_finite() && n.offset_front.value > p.offset_back.value + 1e-6 {
                    add(ob, "front of a following train stays behind the rear of the train ahead", format!("link {l}: front of {:?} at {:.3} past rear of {:?} at {:.3}", n.train_idx.map(|t| t.get()), n.offset_front.value, p.train_idx.map(|t| t.get()), p.offset_back.value), sig1("excess_m", n.offset_front.value - p.offset_back.value));
                }
            }
        }
        // links_blocked[x] = Some(t) iff an unfinished train t lists x among the links it blocks
        let views: Vec<TrainDispView> = s.train_disps.iter().map(|t| t.verif_view()).collect();
        for (x, b) in s.links_blocked.iter().enumerate() {
            let listers: Vec<usize> = views.iter().enumerate().skip(1).filter(|(_, v)| !v.is_finished && v.link_idxs_blocking.iter().any(|l| l.idx() == x)).map(|(i, _)| i).collect();
            match b {
                Some(t) => {
                    // a stale block (nobody lists the link any more) only over-blocks: safe, so a reach probe
                    // and not a verdict; a block attributed to the wrong one of several listers is the same
                    if !listers.contains(&(t.get() as usize)) {
                        ob.stale_blocks += 1;
                    }
                }
                None => {
                    if !listers.is_empty() {
                        add(ob, "blocked-link table consistent with the trains' own lists", format!("links_blocked[{x}] = None but trains {:?} list it", listers), Sig::new());
                    }
                }
            }
        }
        // history fact: nodes a train has already passed (before its free node) are never replaced while
        // another train moves (only the moving train itself may rewind, and only back to its fixed node)
        if ob.prev_committed.len() != views.len() {
            ob.prev_committed = vec![vec![]; views.len()];
        }
        for (i, v) in views.iter().enumerate().skip(1) {
            let key = |d: &DispNode| (d.link_event.link_idx.idx() as u32, match d.link_event.est_type { EstType::Arrive => 0u8, EstType::Clear => 1, _ => 2 }, d.est_idx);
            let lim = if Some(i) == s.train_idx_curr.map(|t| t.get() as usize) { v.disp_node_idx_fixed } else { v.disp_node_idx_free };
            let n = lim.map(|x| x.get() as usize).unwrap_or(0).min(v.disp_path.len());
            let now: Vec<(u32, u8, u32)> = v.disp_path[..n].iter().map(key).collect();
            let prev = &ob.prev_committed[i];
            let m = prev.len().min(now.len());
            if Some(i) != s.train_idx_curr.map(|t| t.get() as usize) && prev[..m] != now[..m] {
                ob.committed_changed += 1;
            }
            let nf = v.disp_node_idx_free.map(|x| x.get() as usize).unwrap_or(0).min(v.disp_path.len());
            ob.prev_committed[i] = v.disp_path[..nf].iter().map(key).collect();
        }
        // probes: rewinds and re-routes
        if ob.last_free.len() != views.len() {
            ob.last_free = vec![0; views.len()];
            ob.last_path = vec![vec![]; views.len()];
        }
        for (i, v) in views.iter().enumerate().skip(1) {
            let free = v.disp_node_idx_free.map(|x| x.get() as usize).unwrap_or(0);
            if free < ob.last_free[i] {
                ob.rewinds += 1;
            }
            ob.last_free[i] = free;
            let path: Vec<usize> = v.disp_path.iter().filter(|n| n.link_event.est_type == EstType::Arrive).map(|n| n.link_event.link_idx.idx()).collect();
            if !ob.last_path[i].is_empty() && ob.last_path[i] != path {
                ob.reroutes += 1;
            }
            ob.last_path[i] = path;
        }
        if let Some(t) = s.train_idx_curr {
            let ti = t.get() as usize;
            if ob.moves.len() < 4096 {
                ob.moves.push((ti, if views[ti].is_finished { 2 } else if views[ti].is_blocked { 1 } else { 0 }));
            }
            ob.trace = (ob.trace ^ (ti as u64 + 31 * ob.calls)).wrapping_mul(0x100000001b3);
            ob.trace ^= views[ti].time_update.value.to_bits();
        }
        let _ = ob.n_trains;
        if std::env::var_os("ALTSIM_TRACE_DSP").is_some() {
            let row: Vec<String> = views
                .iter()
                .enumerate()
                .skip(1)
                .map(|(i, v)| {
                    let lk = |n: DispNodeIdx| n.map(|k| v.disp_path.get(k.get() as usize).map(|d| format!("{}{}", d.link_event.link_idx.idx(), if d.link_event.est_type == EstType::Arrive { "a" } else { "c" })).unwrap_or("?".into())).unwrap_or("-".into());
                    format!("T{i}[front {} back {} fixed {} free {} t={:.0}{}{}]", lk(v.disp_node_idx_front), lk(v.disp_node_idx_back), lk(v.disp_node_idx_fixed), lk(v.disp_node_idx_free), v.time_update.value, if v.is_blocked { " BLOCKED" } else { "" }, if v.is_finished { " done" } else { "" })
                })
                .collect();
            if is_final {
                for (i, v) in views.iter().enumerate().skip(1) {
                    eprintln!("T{i} path: {}", v.disp_path.iter().map(|d| format!("{}{}@{:.0}/t{:.0}", d.link_event.link_idx.idx(), match d.link_event.est_type { EstType::Arrive => "a", EstType::Clear => "c", _ => "f" }, d.offset.value, d.time_pass.value)).collect::<Vec<_>>().join(" "));
                }
            }
            eprintln!("snap {} {} moved {:?}: {}", ob.calls, s.phase, s.train_idx_curr.map(|t| t.get()), row.join(" "));
            // ALTSIM_TRACE_DSP_LINKS=10,11,63: the authority tables of these links at every snapshot
            if let Ok(ls) = std::env::var("ALTSIM_TRACE_DSP_LINKS") {
                for l in ls.split(',').filter_map(|x| x.trim().parse::<usize>().ok()) {
                    if let Some(a) = s.link_disp_auths.get(l) {
                        eprintln!("    link {l} blocked_by {:?}: {}", s.links_blocked.get(l).and_then(|t| t.map(|x| x.get())), a.iter().map(|d| format!("[T{} ae {:.0} ax {:.0} ce {:.0} cx {:.0} of {:.0} ob {:.0}]", d.train_idx.map(|x| x.get()).unwrap_or(0), d.arrive_entry.value, d.arrive_exit.value, d.clear_entry.value, d.clear_exit.value, d.offset_front.value, d.offset_back.value)).collect::<Vec<_>>().join(" "));
                    }
                }
            }
        }
        // reach: how many trains are simultaneously on the line, and in which directions
        let en_route: Vec<usize> = views.iter().enumerate().skip(1).filter(|(_, v)| !v.is_finished && v.disp_node_idx_front.is_some()).map(|(i, _)| i).collect();
        if en_route.len() >= 2 {
            ob.two_en_route += 1;
            let dirs: Vec<bool> = en_route.iter().map(|i| ob.fwd.get(*i - 1).copied().unwrap_or(true)).collect();
            if dirs.iter().any(|d| *d) && dirs.iter().any(|d| !*d) {
                ob.opposing_en_route += 1;
            }
        }
        if is_final {
            ob.final_views = views;
        }
    })
}

// ------------------------------------------------------------------------------------------------
// executor
// ------------------------------------------------------------------------------------------------

fn first(e: &anyhow::Error) -> String {
    format!("{e:#}").lines().filter(|l| !l.trim().is_empty()).last().unwrap_or("").trim().chars().take(140).collect()
}

pub fn execute(case: &Case, ctx: &mut Ctx) {
    let links = &case.links;
    let n = case.trains.len();
    ctx.class.push(format!("dsp:sidings{}:trains{}:fwd{}:lockouts{}", case.n_sidings, n, case.trains.iter().filter(|t| t.fwd).count(), links.iter().any(|l| !l.link_idxs_lockout.is_empty())));
    ctx.layer = "scenario-construction";
    let net = Network(links.clone());
    if let Err(e) = altrios_core::validate::ObjState::validate(&net) {
        ctx.hit_dyn(format!("discarded.setup.network_invalid: {}", format!("{e:?}").lines().nth(1).unwrap_or("").chars().take(80).collect::<String>()));
        return;
    }
    let sims = match build_sims(case) {
        Ok(s) => s,
        Err(e) => {
            ctx.hit_dyn(format!("discarded.setup.build: {}", first(&e).chars().take(80).collect::<String>()));
            return;
        }
    };
    // est-time construction per train (thousands of train steps each)
    let mut ets: Vec<EstTimeNet> = vec![];
    let mut rng = Rng::new(case.hash_seed ^ 0x5eed);
    for (t, s) in sims.iter().enumerate() {
        ctx.layer = "train-stepping";
        ctx.event = t;
        match make_est_times(s.clone(), links) {
            Ok((et, _con)) => {
                ctx.layer = "est-time-graph";
                let origs: Vec<usize> = s.origs.iter().map(|l| l.link_idx.idx()).collect();
                let dests: Vec<usize> = s.dests.iter().map(|l| l.link_idx.idx()).collect();
                check_est_net(ctx, t, &et, links, &origs, &dests, s.state.length.value, &mut rng);
                for e in &et.val {
                    ctx.trace.f(e.time_sched.value);
                    ctx.trace.u(e.idx_next as u64);
                }
                // the graph crosses the Python boundary: it must survive a reload unchanged
                if t == 0 {
                    ctx.layer = "save/load";
                    match crate::ser::reload(&et, crate::ser::Fmt::Yaml, crate::ser::Chan::Str, ctx) {
                        Ok(e2) => {
                            if e2 != et {
                                ctx.violate("C17", "roundtrip", "reloaded est-time network equals the original", "yaml".into());
                            }
                        }
                        Err(e) => ctx.violate("C17", "roundtrip", "est-time network reloads", format!("{e:#}")),
                    }
                }
                ets.push(et);
            }
            Err(e) => {
                let last_bad = case.degenerate == Degenerate::NoRoute && t == n - 1;
                if last_bad {
                    ctx.hit("fault.train.no_route");
                    let msg = format!("{e:#}");
                    if !(msg.contains("No valid paths") || msg.to_lowercase().contains("path")) {
                        ctx.violate("C05", "plan", "unroutable train is reported with a cause", format!("error text: {}", first(&e)));
                    }
                } else {
                    ctx.hit_dyn(format!("discarded.setup.est_times: {}", first(&e).chars().take(70).collect::<String>()));
                }
                return;
            }
        }
    }
    if case.degenerate == Degenerate::NoRoute {
        ctx.violate("C05", "plan", "unroutable train is reported with a cause", "estimated-time construction accepted a train whose destination cannot be reached".into());
        return;
    }
    ctx.nontrivial = n >= 2;
    // ---- dispatch under the observer ----
    ctx.layer = "dispatch";
    OBS.with(|o| {
        *o.borrow_mut() = Some(Obs { prev_committed: vec![], committed_changed: 0, stale_blocks: 0, fwd: case.trains.iter().map(|t| t.fwd).collect(), links: links.clone(), n_trains: n, spacing: 8.0 * 60.0, calls: 0, viol: vec![], first_seen: BTreeMap::new(), last_free: vec![], last_path: vec![], rewinds: 0, reroutes: 0, two_en_route: 0, opposing_en_route: 0, moves: vec![], final_views: vec![], budget_hit: false, trace: 0 })
    });
    verif_hooks::set_dispatch_observer(Some(observe));
    let tr = std::env::var_os("ALTSIM_TRACE_DSP").is_some();
    let res = run_dispatch(links, &sims, ets.clone(), tr, tr);
    verif_hooks::set_dispatch_observer(None);
    let ob = OBS.with(|o| o.borrow_mut().take()).unwrap();
    ctx.add("stat.observer_calls", ob.calls);
    ctx.add("stat.dispatch_runs", 1);
    ctx.trace.u(ob.trace);
    if ob.rewinds > 0 {
        ctx.add("probe.dispatch.rewind", ob.rewinds);
    }
    if ob.committed_changed > 0 {
        ctx.add("probe.dispatch.reroute_replaced_nodes_already_passed", ob.committed_changed);
    }
    if ob.stale_blocks > 0 {
        ctx.add("probe.dispatch.snapshots_with_stale_block_entry", ob.stale_blocks);
    }
    if ob.reroutes > 0 {
        ctx.add("probe.dispatch.reroute", ob.reroutes);
    }
    if ob.two_en_route > 0 {
        ctx.add("probe.dispatch.snapshots_with_2plus_trains_en_route", ob.two_en_route);
    }
    if ob.opposing_en_route > 0 {
        ctx.add("probe.dispatch.snapshots_with_opposing_trains_en_route", ob.opposing_en_route);
    }
    if ob.moves.iter().any(|m| m.1 == 1) {
        ctx.hit("probe.dispatch.train_blocked");
    }
    if ob.budget_hit {
        ctx.violate("C05", "plan", "dispatch terminates", "more than 200000 train moves".into());
    }
    // the sequence of (train, outcome) moves is the schedule this scenario induced
    let mut h = crate::rng::Trace::default();
    for m in &ob.moves {
        h.u(m.0 as u64 * 4 + m.1 as u64);
    }
    ctx.class.push(format!("moves{:x}", h.0));
    for (clause, detail, sig) in ob.viol {
        ctx.violate_sig("C04", "occupancy", &clause, detail, sig);
    }
    match res {
        Ok(plans) => {
            ctx.hit("stat.dispatch_ok");
            if std::env::var("ALTSIM_TRACE_STEPS").is_ok() {
                for (t, p) in plans.iter().enumerate() {
                    eprintln!("plan train {t} fwd {} dep {}: {:?}", case.trains[t].fwd, case.trains[t].depart, p.iter().map(|x| (x.link_idx.idx(), x.time.value as i64)).collect::<Vec<_>>());
                }
                eprintln!("observer calls {} rewinds {} reroutes {} moves {:?}", ob.calls, ob.rewinds, ob.reroutes, &ob.moves[..ob.moves.len().min(60)]);
            }
            check_plans(ctx, case, links, &sims, &ets, &plans, &ob.final_views);
            for (t, p) in plans.iter().enumerate() {
                if p.first().map(|x| x.time.value > case.trains[t].depart + 1.0).unwrap_or(false) {
                    ctx.hit("probe.dispatch.departure_delayed");
                }
                // siding B of a pair = the alternate link
                if p.iter().any(|x| { let l = x.link_idx.idx(); let nf = n_fwd(case.n_sidings); let f = if l > 2 * nf { 0 } else if l > nf { 2 * nf + 1 - l } else { l }; f >= 3 && f % 3 == 0 }) {
                    ctx.hit("probe.dispatch.alternate_siding_used");
                }
            }
            for p in &plans {
                for x in p {
                    ctx.trace.u(x.link_idx.idx() as u64);
                    ctx.trace.f(x.time.value);
                }
            }
            if case.walk_plans {
                // every train walks its plan: the trn world's monitors (C03 ...) on real dispatcher output
                for (t, p) in plans.iter().enumerate() {
                    if p.len() < 2 {
                        continue;
                    }
                    let sub = trn::Case {
                        links: links.clone(),
                        route: p.iter().map(|x| x.link_idx.idx() as u32).collect(),
                        train: case.trains[t].spec.clone(),
                        kind: trn::Kind::LimitTimed { dt: 1.0, times: p.iter().map(|x| x.time.value).collect() },
                        save_interval: None,
                        crashes: vec![],
                        interval_changes: vec![],
                        init_time: case.trains[t].depart,
                        sim_days: None,
                        hash_seed: case.hash_seed,
                        init_offset: None,
                        init_speed_unset: false, trace_datum_shift: 0.0,
                        nested_drift: false,
                        fric_ramp_up: None,
                    };
                    let mut c2 = Ctx::default();
                    trn::execute(&sub, &mut c2);
                    ctx.sim_s += c2.sim_s;
                    ctx.hit("stat.plans_walked");
                    for v in c2.viol {
                        ctx.violate_sig(&v.property, &v.monitor, &v.clause, format!("train {t} walking its plan: {}", v.detail), v.sig);
                    }
                    for (k, v) in c2.counters {
                        if k.starts_with("stat.steps") {
                            ctx.add("stat.plan_walk_steps", v);
                        }
                    }
                }
            }
        }
        Err(e) => {
            ctx.hit("stat.dispatch_err");
            let msg = format!("{e:#}");
            ctx.hit_dyn(format!("note.dispatch_err: {}", first(&e).chars().take(80).collect::<String>()));
            // an error names the trains that could not be routed
            let names = msg.contains("train") || msg.contains("Train") || msg.contains("Some(") || msg.chars().any(|c| c.is_ascii_digit());
            if !names || msg.trim().is_empty() {
                ctx.violate("C05", "plan", "error names the trains that could not be routed", format!("error text: {:?}", msg.chars().take(200).collect::<String>()));
            }
        }
    }
}

fn check_plans(ctx: &mut Ctx, case: &Case, links: &[Link], sims: &[SpeedLimitTrainSim], ets: &[EstTimeNet], plans: &[Vec<LinkIdxTime>], views: &[TrainDispView]) {
    let n = sims.len();
    let v = |ctx: &mut Ctx, clause: &str, d: String| ctx.violate("C05", "plan", clause, d);
    if plans.len() != n {
        v(ctx, "one route per train (no train dropped)", format!("{} plans for {n} trains", plans.len()));
        return;
    }
    for (t, p) in plans.iter().enumerate() {
        if p.is_empty() {
            v(ctx, "one route per train (no train dropped)", format!("train {t}: empty plan"));
            continue;
        }
        let origs: Vec<usize> = sims[t].origs.iter().map(|l| l.link_idx.idx()).collect();
        let dests: Vec<usize> = sims[t].dests.iter().map(|l| l.link_idx.idx()).collect();
        if !origs.contains(&p[0].link_idx.idx()) {
            v(ctx, "route starts on an origin segment", format!("train {t}: starts on link {} (origins {:?})", p[0].link_idx.idx(), origs));
        }
        if p[0].time.value < sims[t].state.time.value - T_EPS {
            v(ctx, "route starts at or after the departure time", format!("train {t}: {} < {}", p[0].time.value, sims[t].state.time.value));
        }
        if !dests.contains(&p.last().unwrap().link_idx.idx()) {
            v(ctx, "route ends on a destination segment", format!("train {t}: ends on link {} (destinations {:?})", p.last().unwrap().link_idx.idx(), dests));
        }
        // an arrival at +inf is a train that never arrives: silently dropped, whatever the return value says
        if let Some(x) = p.iter().find(|x| !x.time.value.is_finite()) {
            v(ctx, "arrival times finite (no train silently dropped)", format!("train {t}: arrival on link {} at {}", x.link_idx.idx(), x.time.value));
        }
        for w in p.windows(2) {
            let l = &links[w[0].link_idx.idx()];
            if !(l.idx_next == w[1].link_idx || l.idx_next_alt == w[1].link_idx) {
                v(ctx, "route contiguous in the network", format!("train {t}: {} -> {}", w[0].link_idx.idx(), w[1].link_idx.idx()));
            }
            if w[1].time.value < w[0].time.value - T_EPS {
                v(ctx, "arrival times non-decreasing", format!("train {t}: {} then {}", w[0].time.value, w[1].time.value));
            }
        }
        // never faster than the train's own free-running times between consecutive segments
        if let Some(view) = views.get(t + 1) {
            let est = &ets[t].val;
            let mut acc = 0.0;
            let mut last_arrive: Option<(f64, usize)> = None;
            let arrive_links: Vec<usize> = view.disp_path.iter().filter(|n| n.link_event.est_type == EstType::Arrive).map(|n| n.link_event.link_idx.idx()).collect();
            let plan_links: Vec<usize> = p.iter().map(|x| x.link_idx.idx()).collect();
            if arrive_links != plan_links {
                v(ctx, "returned plan equals the dispatcher's final path", format!("train {t}: plan {:?} vs final dispatch path {:?}", plan_links, arrive_links));
            }
            for (k, node) in view.disp_path.iter().enumerate() {
                if node.link_event.est_type == EstType::Arrive {
                    if let Some((t_prev, l_prev)) = last_arrive {
                        let elapsed = node.time_pass.value - t_prev;
                        if elapsed < acc - 1e-6 {
                            v(ctx, "never faster than the train's own free-running time", format!("train {t}: link {l_prev} -> {} in {elapsed:.3} s, free-running {acc:.3} s", node.link_event.link_idx.idx()));
                        }
                    }
                    last_arrive = Some((node.time_pass.value, node.link_event.link_idx.idx()));
                    acc = 0.0;
                }
                if let Some(nx) = view.disp_path.get(k + 1) {
                    let a = &est[node.est_idx as usize];
                    if a.idx_next == nx.est_idx {
                        acc += a.time_to_next.value;
                    }
                    // when the next node is a's alternate, the fake node that follows carries the duration itself
                }
            }
        }
    }
    // black-box necessary condition, from the returned plans, the link lengths and the train lengths only (nothing
    // of the dispatcher's own occupancy tables): a train certainly holds link i from the time its front enters it
    // until the time its front enters the last later link m that starts less than one train length beyond the end
    // of link i (the tail is then still on link i). Such windows of two trains must not overlap on a segment and
    // its reverse, nor on segments declared mutually exclusive. (A train that finishes leaves the model: its
    // windows end with its last arrival.)
    let certain: Vec<Vec<(usize, f64, f64)>> = (0..n)
        .map(|t| {
            let p = &plans[t];
            let len_t = sims[t].state.length.value;
            let mut starts = vec![0.0f64];
            for x in p.iter() {
                starts.push(starts.last().unwrap() + links[x.link_idx.idx()].length.value);
            }
            (0..p.len().saturating_sub(1))
                .map(|i| {
                    let end_i = starts[i + 1];
                    let mut m = i + 1;
                    while m + 1 < p.len() && starts[m + 1] - end_i < len_t {
                        m += 1;
                    }
                    (p[i].link_idx.idx(), p[i].time.value, p[m].time.value)
                })
                .collect()
        })
        .collect();
    for a in 0..n {
        for b in a + 1..n {
            for &(la, a0, a1) in &certain[a] {
                for &(lb, b0, b1) in &certain[b] {
                    let flip = links[la].idx_flip.idx() == lb && lb != 0;
                    let lockout = links[la].link_idxs_lockout.iter().any(|x| x.idx() == lb) || links[lb].link_idxs_lockout.iter().any(|x| x.idx() == la);
                    if (flip || lockout) && a0 < b1 - T_EPS && b0 < a1 - T_EPS && a0.is_finite() && b0.is_finite() {
                        let clause = if flip { "returned plans: opposite trains never on one segment at overlapping times (front entering to tail certainly still on it)" } else { "returned plans: mutually exclusive segments never held at overlapping times (front entering to tail certainly still on it)" };
                        ctx.violate_sig("C04", "occupancy", clause, format!("trains {a} and {b} on links {la}/{lb}: [{a0:.1}, {a1:.1}] vs [{b0:.1}, {b1:.1}]"), sig1("final", true));
                    }
                }
            }
        }
    }
    let _ = case;
}

pub fn shrink(case: &Case) -> Vec<Case> {
    let mut out = vec![];
    if case.trains.len() > 1 {
        for k in 0..case.trains.len() {
            let mut c = case.clone();
            c.trains.remove(k);
            out.push(c);
        }
    }
    if case.walk_plans {
        let mut c = case.clone();
        c.walk_plans = false;
        out.push(c);
    }
    for k in 0..case.trains.len() {
        let t = &case.trains[k];
        if t.spec.consist.len() > 2 {
            let mut c = case.clone();
            c.trains[k].spec.consist.truncate(2);
            out.push(c);
        }
        if t.depart != 0.0 {
            let mut c = case.clone();
            c.trains[k].depart = (t.depart / 100.0).round() * 100.0;
            if c.trains[k].depart != t.depart {
                out.push(c);
            }
        }
        if t.spec.cars.len() > 1 {
            let mut c = case.clone();
            c.trains[k].spec.cars.truncate(1);
            if c.trains[k].spec.cars[0].n < 30 {
                c.trains[k].spec.cars[0].n = 40;
            }
            out.push(c);
        }
    }
    // drop lockouts, headings
    if case.links.iter().any(|l| !l.link_idxs_lockout.is_empty()) {
        let mut c = case.clone();
        for l in c.links.iter_mut() {
            l.link_idxs_lockout.clear();
        }
        out.push(c);
    }
    if case.links.iter().any(|l| !l.headings.is_empty()) {
        let mut c = case.clone();
        for l in c.links.iter_mut() {
            l.headings.clear();
        }
        out.push(c);
    }
    out
}


/// Calibration against the repository's own network: `altsim taconite <t_fwd,...> <t_rev,...>` dispatches the
/// shipped forward / reverse example trains over python/altrios/resources/networks/Taconite.yaml under the
/// observer (same monitors as the generated scenarios). Returns the violations found.
pub fn taconite(fwd: &[f64], rev: &[f64]) -> anyhow::Result<Vec<(String, String)>> {
    let net = <Network as altrios_core::traits::SerdeAPI>::from_file("/repo/python/altrios/resources/networks/Taconite.yaml")?;
    let links = net.0.clone();
    let mut sims = vec![];
    for t in fwd {
        let mut s = altrios_core::train::speed_limit_train_sim_fwd();
        s.state.time = *t * uc::S;
        sims.push(s);
    }
    for t in rev {
        let mut s = altrios_core::train::speed_limit_train_sim_rev();
        s.state.time = *t * uc::S;
        sims.push(s);
    }
    let mut ets = vec![];
    for s in &sims {
        ets.push(make_est_times(s.clone(), &links)?.0);
    }
    // the est-time monitors (C15) on the shipped trains' networks
    let mut est_viol: Vec<(String, String)> = vec![];
    {
        let mut c2 = Ctx::default();
        let mut rng = Rng::new(1);
        for (t, (s, et)) in sims.iter().zip(&ets).enumerate() {
            let origs: Vec<usize> = s.origs.iter().map(|l| l.link_idx.idx()).collect();
            let dests: Vec<usize> = s.dests.iter().map(|l| l.link_idx.idx()).collect();
            check_est_net(&mut c2, t, et, &links, &origs, &dests, s.state.length.value, &mut rng);
        }
        for v in &c2.viol {
            let known = crate::findings::classify(v).unwrap_or_default();
            est_viol.push((format!("{}/{}{}", v.monitor, v.clause, if known.is_empty() { String::new() } else { format!(" [open finding {known}]") }), v.detail.clone()));
        }
        eprintln!("est-time nets checked: {} nodes, {} monitor events", ets.iter().map(|e| e.val.len()).sum::<usize>(), c2.viol.len());
    }
    OBS.with(|o| {
        *o.borrow_mut() = Some(Obs { prev_committed: vec![], committed_changed: 0, stale_blocks: 0, fwd: fwd.iter().map(|_| true).chain(rev.iter().map(|_| false)).collect(), links: links.clone(), n_trains: sims.len(), spacing: 8.0 * 60.0, calls: 0, viol: vec![], first_seen: BTreeMap::new(), last_free: vec![], last_path: vec![], rewinds: 0, reroutes: 0, two_en_route: 0, opposing_en_route: 0, moves: vec![], final_views: vec![], budget_hit: false, trace: 0 })
    });
    verif_hooks::set_dispatch_observer(Some(observe));
    let tr = std::env::var_os("ALTSIM_TRACE_DSP").is_some();
    let res = std::panic::catch_unwind(std::panic::AssertUnwindSafe(|| run_dispatch(&links, &sims, ets.clone(), tr, tr)));
    verif_hooks::set_dispatch_observer(None);
    let ob = OBS.with(|o| o.borrow_mut().take()).unwrap();
    eprintln!("observer calls {} rewinds {} reroutes {} two_en_route {} opposing_en_route {}", ob.calls, ob.rewinds, ob.reroutes, ob.two_en_route, ob.opposing_en_route);
    let mut out: Vec<(String, String)> = ob.viol.into_iter().map(|v| (v.0, v.1)).collect();
    out.extend(est_viol);
    match res {
        Err(_) => { let (m, l) = crate::take_last_panic(); out.push(("panic".into(), format!("{l}: {m}"))) }
        Ok(Err(e)) => eprintln!("dispatch error: {e:#}"),
        Ok(Ok(plans)) => {
            for (t, p) in plans.iter().enumerate() {
                eprintln!("plan {t}: {} links, {:.0} .. {:.0} s", p.len(), p.first().map(|x| x.time.value).unwrap_or(0.0), p.last().map(|x| x.time.value).unwrap_or(0.0));
            }
        }
    }
    Ok(out)
}


/// facts about the dispatch history so far, for the signature of a panic inside run_dispatch
pub fn panic_sig() -> Sig {
    let mut sg = Sig::new();
    OBS.with(|o| {
        if let Some(ob) = o.borrow().as_ref() {
            sg.insert("reroute_replaced_nodes_already_passed".into(), (ob.committed_changed > 0).into());
            sg.insert("observer_calls".into(), (ob.calls as f64).into());
        }
    });
    sg
}
