//! Known findings: genuine defects of the unchanged tree that are recorded rather than repaired.
//! `/verif/known_findings.json` (committed, never written at run time) lists them; each *open* entry
//! names a signature predicate implemented here.  The predicate looks only at the structured
//! violation record (monitor, clause, layer, sig fields) - never at a seed - and is as narrow as the
//! root cause allows, so that a different violation of the same property is still reported.

use crate::core::Violation;
use serde::Deserialize;

#[derive(Deserialize, Clone, Debug)]
pub struct Finding {
    pub id: String,
    pub property: String,
    pub status: String, // "open" | "fixed"
    #[serde(default)]
    pub what: String,
    #[serde(default)]
    pub witness: Option<String>,
    #[serde(default)]
    pub line: Option<String>,
}

#[derive(Deserialize, Clone, Debug, Default)]
pub struct FindingsFile {
    #[serde(default)]
    pub findings: Vec<Finding>,
}

pub fn load(root: &str) -> FindingsFile {
    let p = format!("{root}/known_findings.json");
    match std::fs::read_to_string(&p) {
        Ok(s) => serde_json::from_str(&s).unwrap_or_else(|e| {
            eprintln!("altsim: cannot parse {p}: {e}");
            std::process::exit(2)
        }),
        Err(_) => FindingsFile::default(),
    }
}

fn sig_bool(v: &Violation, k: &str) -> Option<bool> {
    v.sig.get(k).and_then(|x| x.as_bool())
}
#[allow(dead_code)]
fn sig_f(v: &Violation, k: &str) -> Option<f64> {
    v.sig.get(k).and_then(|x| x.as_f64())
}
#[allow(dead_code)]
fn sig_s<'a>(v: &'a Violation, k: &str) -> Option<&'a str> {
    v.sig.get(k).and_then(|x| x.as_str())
}

/// signature predicates, by finding id
pub fn predicate(id: &str, v: &Violation) -> bool {
    match id {
        // A stand-alone Locomotive never compares the request with its own published tractive limit:
        // acceptance is decided by the engine / battery checks (1e-3 tolerance) while the published limit
        // was derived through the inverse-interpolated efficiency tables, so a request somewhat above the
        // published limit can be accepted although every component stayed inside its own limit.
        "C09-standalone-loco-limit-not-enforced" => {
            v.monitor == "limits"
                && (v.clause == "loco.pwr_out<=published_max" || v.clause == "over-limit request is rejected")
                && sig_bool(v, "standalone") == Some(true)
                && sig_bool(v, "component_limits_respected") == Some(true)
                && sig_bool(v, "negative") != Some(true)
        }
        // The braking curve assumes friction braking only and every point of it carries the curve's final
        // target; the controller brakes at full friction + dynamic force towards that target, so a train
        // with few cars per locomotive stands still well before the end of its path with target speed 0.
        "C03-stops-short-of-window-on-final-braking-curve" => {
            v.monitor == "limit_run"
                && v.clause == "comes to rest inside the stopping window and walk terminates"
                && sig_bool(v, "at_rest") == Some(true)
                && sig_bool(v, "speed_target_zero") == Some(true)
        }
        // A friction brake with a non-zero ramp-up time (the shipped default brake: 60 s; the builder gives 0 s)
        // cannot come on instantly. The controller drives at the limit and asks for the whole holding force in
        // one step (reaching the limit under power on a downgrade, or where the grade steepens); when that is more
        // than dynamic braking plus one step of ramp, the train exceeds the limit by a hair and the next step trips
        // the library's own assertion. Only with ramp-up > 0, only when the brake comes on from fully released, and
        // never when the brake state had dropped to zero while the consist kept braking (that is a different bug).
        "C03-ramping-friction-brake-cannot-hold-the-limit-at-once" => {
            sig_f(v, "fric_ramp_up_s").map(|x| x > 0.0).unwrap_or(false)
                && sig_bool(v, "fric_dropped_while_braking") == Some(false)
                && ((v.monitor == "panic"
                    && sig_s(v, "location").map(|l| l.starts_with("src/train/braking_point.rs")).unwrap_or(false)
                    && sig_s(v, "message").map(|m| m.starts_with("Speed limit violated!")).unwrap_or(false))
                    || (v.monitor == "limit_run"
                        && v.clause == "speed <= limit in force"
                        && sig_bool(v, "fric_ramp_limited_from_released") == Some(true)
                        && sig_f(v, "overspeed_rel").map(|x| x > 0.0 && x < 2e-2).unwrap_or(false)))
        }
        // The backward pass re-times a slower alternative branch to "the latest departure that still makes
        // the join", which can precede a departure at t ~ 0: negative scheduled times, only on nodes reached
        // through an alternate link, bounded below by minus the trip time.
        "C15-negative-time-sched-on-alternate-branch" => {
            v.monitor == "est_time_net"
                && v.clause == "scheduled times finite and non-negative"
                && sig_s(v, "field") == Some("time_sched")
                && sig_bool(v, "finite") == Some(true)
                && (sig_bool(v, "on_alternate_branch") == Some(true)
                    // ... or the root itself, pulled earlier through such a branch
                    || (sig_bool(v, "is_root_node") == Some(true) && sig_bool(v, "graph_has_alternates") == Some(true))
                    // ... or a node of the primary path behind a pulled-back root: negative, but not below the root's own time
                    || (sig_bool(v, "graph_has_alternates") == Some(true)
                        && match (sig_f(v, "value"), sig_f(v, "root_time_sched")) {
                            (Some(x), Some(r)) => r < 0.0 && x >= r - 1e-9,
                            _ => false,
                        }))
                && match (sig_f(v, "value"), sig_f(v, "max_time_sched")) {
                    (Some(x), Some(m)) => x < 0.0 && x >= -m.max(1.0),
                    _ => false,
                }
        }
        // make_est_times' own structural self-check fails (join of two alternative branches on a route shorter
        // than its 5-mile look-ahead): the process panics instead of returning a graph or an error
        "C15-structural-assert-in-make-est-times" => {
            v.monitor == "panic"
                && sig_s(v, "location").map(|l| l.starts_with("src/meet_pass/est_times/mod.rs")).unwrap_or(false)
                && sig_s(v, "message").map(|m| m.contains("est_time_prev.idx_next == est_idx")).unwrap_or(false)
        }
        // history-identified: the observer saw committed dispatch nodes of a waiting train replaced by a re-route
        // earlier in the same run; the abort that follows is the consequence
        // ... or the re-route itself aborts where it looks, on the new branch, for the event the train's front /
        // back node stands on ("This exits because some place on the new path must match": it does not)
        "C05-reroute-replaces-nodes-already-passed" => {
            v.monitor == "panic"
                && v.layer == "dispatch"
                && (sig_bool(v, "reroute_replaced_nodes_already_passed") == Some(true)
                    || (sig_s(v, "location") == Some("src/meet_pass/train_disp/free_path.rs:733") && sig_s(v, "message").map(|m| m.starts_with("index out of bounds")).unwrap_or(false)))
        }
        // bincode is not self-describing: a field that `skip_serializing_if` left out on output shifts every
        // later byte. Decidable from the yaml rendering: a known skippable key is absent.
        "C17-bincode-cannot-carry-skipped-fields" => {
            v.monitor == "roundtrip"
                && v.clause == "object can be read back"
                && sig_s(v, "format") == Some("bin")
                && sig_bool(v, "serde_skipped_a_known_skippable_field") == Some(true)
                && !v.detail.contains("deserialize_any")
        }
        // Location.is_front_end is read through serde-this-or-that (deserialize_any), which bincode refuses
        "C17-bincode-cannot-read-location" => {
            v.monitor == "roundtrip" && v.clause == "object can be read back" && sig_s(v, "format") == Some("bin") && v.detail.contains("deserialize_any")
        }
        // JSON has no literal for infinity / NaN: serde_json writes null, which does not read back as f64
        "C17-json-cannot-carry-nonfinite-floats" => {
            v.monitor == "roundtrip"
                && v.clause == "object can be read back"
                && sig_s(v, "format") == Some("json")
                && sig_bool(v, "value_has_nonfinite_float") == Some(true)
        }
        _ => {
            let _ = (sig_bool(v, ""),);
            false
        }
    }
}

/// the open finding (if any) that this violation is an instance of
pub fn match_open<'a>(ff: &'a FindingsFile, v: &Violation) -> Option<&'a Finding> {
    ff.findings.iter().find(|f| f.status == "open" && f.property == v.property && predicate(&f.id, v))
}


/// id of the open finding a violation is an instance of, from a process-wide copy of the findings file.
/// Used while a run is recorded: an instance of a known finding must not stand in for a different
/// violation of the same clause later in the same run.
pub fn classify(v: &Violation) -> Option<String> {
    static FF: std::sync::OnceLock<FindingsFile> = std::sync::OnceLock::new();
    let ff = FF.get_or_init(|| load(&crate::root()));
    match_open(ff, v).map(|f| f.id.clone())
}
