//! altsim - deterministic simulation with fault injection for NREL/altrios (see /verif/DESIGN.md).
//!
//!   altsim check <Cxx> [--tier quick|thorough] [--runs N] [--jobs J]
//!   altsim replay <file>
//!   altsim selftest hashseed | determinism [<Cxx>...]
//!   altsim worker <Cxx> <tier> <seed> <start> <end>      (internal)
//!
//! Exit codes: 0 property held on everything explored, 1 violation (VIOLATION line), 2 harness error.

mod cases;
mod cmp;
mod core;
mod dsp;
mod findings;
mod hashseed;
mod io;
mod mass;
mod net;
mod pt;
mod rng;
mod ser;
mod thr;
mod trk;
mod trn;
mod val;

use crate::cases::Case;
use crate::core::*;
use serde::{Deserialize, Serialize};
use std::cell::RefCell;
use std::collections::{BTreeMap, BTreeSet};
use std::io::{BufRead, Write};
use std::panic::{catch_unwind, AssertUnwindSafe};
use std::time::{Duration, Instant};

thread_local! {
    static LAST_PANIC: RefCell<Option<(String, String)>> = const { RefCell::new(None) };
}

pub fn take_last_panic() -> (String, String) {
    LAST_PANIC.with(|p| p.borrow_mut().take()).unwrap_or(("?".into(), "?".into()))
}

pub fn root() -> String {
    std::env::var("ALTSIM_ROOT").unwrap_or_else(|_| "/verif".into())
}

fn verif_seed() -> u64 {
    std::env::var("VERIF_SEED").ok().and_then(|s| s.trim().parse::<u64>().ok()).unwrap_or(1)
}

fn install_panic_hook() {
    std::panic::set_hook(Box::new(|info| {
        let loc = info.location().map(|l| format!("{}:{}", l.file(), l.line())).unwrap_or_else(|| "?".into());
        let msg = if let Some(s) = info.payload().downcast_ref::<&str>() {
            s.to_string()
        } else if let Some(s) = info.payload().downcast_ref::<String>() {
            s.clone()
        } else {
            "panic".into()
        };
        LAST_PANIC.with(|p| *p.borrow_mut() = Some((loc, msg)));
    }));
}

/// Execute one case on a fresh thread (own hash seed), capturing panics. None = hang.
pub fn run_case(case: &Case, timeout: Duration) -> Option<Ctx> {
    run_case_seeded(case, case.hash_seed(), timeout)
}

/// same, with explicit RandomState keys for the run's thread (seam N2)
pub fn run_case_seeded(case: &Case, hash_seed: u64, timeout: Duration) -> Option<Ctx> {
    run_case_in(case, hash_seed, None, timeout)
}

/// same, optionally with the whole run executing inside a private rayon pool of `pool` threads (every worker
/// thread gets the run's hash seed): whatever the library parallelises internally then splits and steals
/// according to that pool size. `None` = plain thread (library code that uses rayon falls into the global pool).
pub fn run_case_in(case: &Case, hash_seed: u64, pool: Option<usize>, timeout: Duration) -> Option<Ctx> {
    run_case_after(case, None, hash_seed, pool, timeout)
}

/// same, with another case executed first ON THE SAME THREAD (and in the same process): whatever that
/// leaves behind in thread-locals, statics or caches must not change what `case` then computes
pub fn run_case_after(case: &Case, before: Option<&Case>, hash_seed: u64, pool: Option<usize>, timeout: Duration) -> Option<Ctx> {
    let (tx, rx) = std::sync::mpsc::channel();
    let case2 = case.clone();
    let before2 = before.cloned();
    let h = std::thread::Builder::new()
        .stack_size(32 << 20)
        .spawn(move || {
            hashseed::set_thread_seed(hash_seed);
            if let Some(mut b) = before2 {
                cases::rehash(&mut b);
                let mut throwaway = Ctx::default();
                let _ = catch_unwind(AssertUnwindSafe(|| cases::execute(&b, &mut throwaway)));
                let _ = LAST_PANIC.with(|p| p.borrow_mut().take());
            }
            let mut case2 = case2;
            cases::rehash(&mut case2);
            let mut ctx = Ctx::default();
            let r = match pool {
                None => catch_unwind(AssertUnwindSafe(|| cases::execute(&case2, &mut ctx))).map_err(|_| LAST_PANIC.with(|p| p.borrow_mut().take())),
                Some(n) => {
                    let built = rayon::ThreadPoolBuilder::new().num_threads(n.max(1)).stack_size(32 << 20).start_handler(move |_| hashseed::set_thread_seed(hash_seed)).build();
                    match built {
                        Ok(tp) => {
                            let ctx_ref = &mut ctx;
                            let case_ref = &case2;
                            // the panic record lives in the thread-local of the pool thread that ran the body: fetch it there
                            tp.install(move || catch_unwind(AssertUnwindSafe(|| cases::execute(case_ref, ctx_ref))).map_err(|_| LAST_PANIC.with(|p| p.borrow_mut().take())))
                        }
                        Err(_) => {
                            ctx.hit("stat.pool_build_failed");
                            Ok(())
                        }
                    }
                }
            };
            if let Err(rec) = r {
                let (loc, msg) = rec.unwrap_or(("?".into(), "?".into()));
                let short: String = msg.lines().next().unwrap_or("").chars().take(200).collect();
                let loc_short = loc.rsplit("altrios-core/").next().unwrap_or(&loc).to_string();
                match cases::panic_property(&case2, ctx.layer, &loc) {
                    Some(p) => {
                        let mut sg = sig1("location", loc_short.clone());
                        sg.insert("message".into(), short.clone().into());
                        if let Case::Dsp(_) = &case2 {
                            sg.extend(dsp::panic_sig());
                        }
                        if let Case::Trn(_) = &case2 {
                            sg.extend(trn::panic_sig());
                        }
                        ctx.violate_sig(p, "panic", &loc_short, format!("panic at {loc_short}: {short}"), sg);
                    }
                    None => {
                        ctx.hit_dyn(format!("unarmed.panic@{loc_short} [{}]", ctx.layer));
                    }
                }
            }
            let _ = tx.send(ctx);
        })
        .expect("spawn run thread");
    // The budget is CPU time of this worker process (one run at a time per process), not wall time: a
    // machine that is busy with something else (other checks, compilers) must not turn a slow run into a
    // reported hang. A run that burns no CPU at all (a deadlock) is ended by a wall-clock backstop of 30 x
    // the budget. Neither clock decides anything but "this run hung".
    let cpu0 = process_cpu_s();
    let t0 = Instant::now();
    loop {
        match rx.recv_timeout(Duration::from_millis(200)) {
            Ok(ctx) => {
                let _ = h.join();
                return Some(ctx);
            }
            Err(std::sync::mpsc::RecvTimeoutError::Disconnected) => return None,
            Err(std::sync::mpsc::RecvTimeoutError::Timeout) => {
                let cpu = process_cpu_s() - cpu0;
                if cpu >= timeout.as_secs_f64() || t0.elapsed() >= timeout * 30 {
                    return None;
                }
            }
        }
    }
}

/// user + system CPU seconds consumed by this process so far (all threads), from /proc/self/stat
fn process_cpu_s() -> f64 {
    let Ok(s) = std::fs::read_to_string("/proc/self/stat") else { return 0.0 };
    // fields after the parenthesised command name: state is field 3, utime 14, stime 15
    let Some(rest) = s.rsplit(')').next() else { return 0.0 };
    let f: Vec<&str> = rest.split_whitespace().collect();
    let ticks = |i: usize| f.get(i).and_then(|x| x.parse::<f64>().ok()).unwrap_or(0.0);
    (ticks(11) + ticks(12)) / 100.0
}

#[derive(Serialize, Deserialize, Clone, Debug)]
pub struct ReplayFile {
    pub property: String,
    pub verif_seed: u64,
    pub run: u64,
    pub violation: Violation,
    #[serde(default)]
    pub minimised_from_size: Option<usize>,
    pub case: Case,
}

/// the violation of the same clause in this run: one that is not an instance of an open finding if there is one
fn find_same(ctx: &Ctx, key: &str) -> Option<Violation> {
    ctx.viol.iter().find(|v| v.key() == key && findings::classify(v).is_none()).or_else(|| ctx.viol.iter().find(|v| v.key() == key)).cloned()
}
/// the instance of open finding `id` in this run, if any
fn find_instance(ctx: &Ctx, key: &str, id: &str) -> Option<Violation> {
    ctx.viol.iter().find(|v| v.key() == key && findings::classify(v).as_deref() == Some(id)).cloned()
}

/// Greedy delta-debugging over the world's shrink candidates; a candidate is kept only if the same
/// monitor clause still fires. Bounded number of re-executions.
fn minimise(case: &Case, v: &Violation, budget: usize, ff: &findings::FindingsFile) -> (Case, Violation, usize) {
    let key = v.key();
    let mut cur = case.clone();
    let mut cur_v = v.clone();
    let mut used = 0usize;
    'outer: loop {
        let cands = cases::shrink(&cur, &cur_v);
        for c in cands {
            if used >= budget {
                break 'outer;
            }
            if c.size() >= cur.size() && serde_json::to_string(&c).ok() == serde_json::to_string(&cur).ok() {
                continue;
            }
            used += 1;
            if let Some(ctx) = run_case(&c, Duration::from_secs(60)) {
                // same clause, and it must not turn into an instance of an open known finding on the way down
                if let Some(v2) = find_same(&ctx, &key).filter(|v2| findings::match_open(ff, v2).is_none()) {
                    cur = c;
                    cur_v = v2;
                    continue 'outer;
                }
            }
        }
        break;
    }
    (cur, cur_v, used)
}

fn write_replay(rf: &ReplayFile) -> String {
    let dir = format!("{}/replays", root());
    let _ = std::fs::create_dir_all(&dir);
    let path = format!("{dir}/{}-s{}-r{}-{:04x}.yaml", rf.property, rf.verif_seed, rf.run, rng::fnv(rf.violation.key().as_bytes()) & 0xffff);
    let s = serde_yaml::to_string(rf).expect("serialise replay");
    std::fs::write(&path, s).expect("write replay");
    path
}

fn truncate_json(v: &mut serde_json::Value, max_arr: usize) {
    match v {
        serde_json::Value::Array(a) => {
            if a.len() > max_arr {
                let n = a.len();
                a.truncate(max_arr);
                a.push(serde_json::Value::String(format!("... ({} elements in total)", n)));
            }
            for x in a.iter_mut() {
                truncate_json(x, max_arr);
            }
        }
        serde_json::Value::Object(o) => {
            for (_, x) in o.iter_mut() {
                truncate_json(x, max_arr);
            }
        }
        _ => {}
    }
}

#[derive(Serialize, Deserialize, Default, Debug)]
struct Partial {
    runs: u64,
    nontrivial: u64,
    sim_s: f64,
    counters: BTreeMap<String, u64>,
    classes: Vec<u64>,
    nontrivial_classes: Vec<u64>,
    unarmed: BTreeMap<String, u64>,
    trace_acc: u64,
    samples: Vec<serde_json::Value>,
    minimise_execs: u64,
}

fn worker(prop: &str, tier: Tier, seed: u64, start: u64, end: u64) {
    install_panic_hook();
    let ff = findings::load(&root());
    let out = std::io::stdout();
    let mut part = Partial::default();
    let mut seen_classes: BTreeSet<u64> = BTreeSet::new();
    let mut last_flush = Instant::now();
    let mut reported_keys: BTreeSet<String> = BTreeSet::new();
    let want_samples = start == 0;
    let flush = |part: &mut Partial| {
        let mut o = out.lock();
        let _ = writeln!(o, "P {}", serde_json::to_string(&part).unwrap());
        let _ = o.flush();
        *part = Partial::default();
    };
    for i in start..end {
        {
            let mut o = out.lock();
            let _ = writeln!(o, "S {i}");
            let _ = o.flush();
        }
        let mut rng = rng::Rng::new(rng::run_seed(seed, prop, i));
        let case = cases::generate(prop, &mut rng, tier == Tier::Thorough);
        let ctx = match run_case(&case, Duration::from_secs(cases::run_timeout_s(prop))) {
            Some(c) => c,
            None => {
                let mut o = out.lock();
                let _ = writeln!(o, "H {i}");
                let _ = o.flush();
                std::process::exit(3);
            }
        };
        part.runs += 1;
        part.sim_s += ctx.sim_s;
        part.trace_acc = part.trace_acc.wrapping_add(ctx.trace.0.rotate_left((i % 63) as u32) ^ i);
        for (k, v) in &ctx.counters {
            *part.counters.entry((*k).to_string()).or_insert(0) += v;
        }
        for (k, v) in &ctx.dyn_counters {
            *part.counters.entry(k.clone()).or_insert(0) += v;
        }
        let ck = ctx.class_key();
        if seen_classes.insert(ck) {
            part.classes.push(ck);
            if ctx.nontrivial {
                part.nontrivial_classes.push(ck);
            }
        }
        if ctx.nontrivial {
            part.nontrivial += 1;
        }
        if want_samples && part.samples.len() < 2 && i < start + 2 {
            let mut v = serde_json::to_value(&case).unwrap_or(serde_json::Value::Null);
            truncate_json(&mut v, 10);
            part.samples.push(serde_json::json!({"run": i, "case": v, "accepted_sim_seconds": ctx.sim_s}));
        }
        for v in &ctx.viol {
            if v.property != prop {
                *part.unarmed.entry(v.key()).or_insert(0) += 1;
                continue;
            }
            if let Some(f) = findings::match_open(&ff, v) {
                let mut o = out.lock();
                let _ = writeln!(o, "K {}", serde_json::json!({"run": i, "finding": f.id, "what": f.what, "violation": v}));
                continue;
            }
            // report each clause once per worker with a minimised replay; count the rest
            let key = v.key();
            if !reported_keys.insert(key.clone()) {
                let mut o = out.lock();
                let _ = writeln!(o, "W {}", serde_json::json!({"run": i, "key": key}));
                continue;
            }
            let (mc, mv, used) = minimise(&case, v, 200, &ff);
            part.minimise_execs += used as u64;
            // replay the minimised case once more: it must fail the same way
            let mut again = run_case(&mc, Duration::from_secs(90)).and_then(|c| find_same(&c, &key));
            // cases that observe uncontrolled OS threads (real rayon pools): when the library under test races, that
            // race IS the violation and need not show in every execution - the confirmation is retried a few times
            if again.is_none() && mc.observes_real_threads() {
                for _ in 0..6 {
                    again = run_case(&mc, Duration::from_secs(90)).and_then(|c| find_same(&c, &key));
                    if again.is_some() {
                        break;
                    }
                }
            }
            match again {
                Some(v2) if v2.event == mv.event => {
                    let rf = ReplayFile { property: prop.into(), verif_seed: seed, run: i, violation: mv.clone(), minimised_from_size: Some(case.size()), case: mc.clone() };
                    let path = write_replay(&rf);
                    let mut o = out.lock();
                    let _ = writeln!(o, "V {}", serde_json::json!({"run": i, "replay": path, "violation": mv, "size_before": case.size(), "size_after": mc.size()}));
                }
                _ => {
                    let rf = ReplayFile { property: prop.into(), verif_seed: seed, run: i, violation: v.clone(), minimised_from_size: None, case: case.clone() };
                    let path = write_replay(&rf);
                    let mut o = out.lock();
                    let _ = writeln!(o, "U {}", serde_json::json!({"run": i, "replay": path, "violation": v, "error": "violation did not replay identically"}));
                }
            }
        }
        if part.runs >= 512 || last_flush.elapsed() > Duration::from_secs(2) {
            flush(&mut part);
            last_flush = Instant::now();
        }
    }
    flush(&mut part);
    let mut o = out.lock();
    let _ = writeln!(o, "D");
    let _ = o.flush();
}

#[derive(Default)]
struct Agg {
    runs: u64,
    nontrivial: u64,
    sim_s: f64,
    counters: BTreeMap<String, u64>,
    classes: BTreeSet<u64>,
    nontrivial_classes: BTreeSet<u64>,
    unarmed: BTreeMap<String, u64>,
    trace_acc: u64,
    samples: Vec<serde_json::Value>,
    violations: Vec<serde_json::Value>,
    dup_violations: u64,
    known: BTreeMap<String, (u64, String, serde_json::Value)>,
    harness_errors: Vec<String>,
    aborts: u64,
    hangs: u64,
    minimise_execs: u64,
}

fn spawn_worker(prop: &str, tier: Tier, seed: u64, start: u64, end: u64) -> std::process::Child {
    let exe = std::env::current_exe().expect("current_exe");
    std::process::Command::new(exe)
        .args(["worker", prop, tier.name(), &seed.to_string(), &start.to_string(), &end.to_string()])
        .stdout(std::process::Stdio::piped())
        .stderr(std::process::Stdio::piped())
        .spawn()
        .expect("spawn worker")
}

/// Supervise one contiguous range: respawn after aborts / hangs, attributing them to the last START.
fn supervise_range(prop: &str, tier: Tier, seed: u64, mut start: u64, end: u64, agg: &std::sync::Mutex<Agg>) {
    while start < end {
        let mut child = spawn_worker(prop, tier, seed, start, end);
        let stdout = child.stdout.take().unwrap();
        let mut stderr = child.stderr.take().unwrap();
        let errh = std::thread::spawn(move || {
            let mut s = String::new();
            let _ = std::io::Read::read_to_string(&mut stderr, &mut s);
            s
        });
        let mut last_start: Option<u64> = None;
        let mut done = false;
        let mut hang = false;
        for line in std::io::BufReader::new(stdout).lines() {
            let Ok(line) = line else { break };
            let (tag, rest) = line.split_at(1.min(line.len()));
            let rest = rest.trim();
            match tag {
                "S" => last_start = rest.parse().ok(),
                "D" => done = true,
                "H" => hang = true,
                "P" => {
                    if let Ok(p) = serde_json::from_str::<Partial>(rest) {
                        let mut a = agg.lock().unwrap();
                        a.runs += p.runs;
                        a.nontrivial += p.nontrivial;
                        a.sim_s += p.sim_s;
                        a.trace_acc = a.trace_acc.wrapping_add(p.trace_acc);
                        a.minimise_execs += p.minimise_execs;
                        for (k, v) in p.counters {
                            *a.counters.entry(k).or_insert(0) += v;
                        }
                        for (k, v) in p.unarmed {
                            *a.unarmed.entry(k).or_insert(0) += v;
                        }
                        a.classes.extend(p.classes);
                        a.nontrivial_classes.extend(p.nontrivial_classes);
                        a.samples.extend(p.samples);
                    }
                }
                "V" => {
                    if let Ok(v) = serde_json::from_str::<serde_json::Value>(rest) {
                        agg.lock().unwrap().violations.push(v);
                    }
                }
                "W" => agg.lock().unwrap().dup_violations += 1,
                "K" => {
                    if let Ok(v) = serde_json::from_str::<serde_json::Value>(rest) {
                        let id = v["finding"].as_str().unwrap_or("?").to_string();
                        let what = v["what"].as_str().unwrap_or("").to_string();
                        let mut a = agg.lock().unwrap();
                        let e = a.known.entry(id).or_insert((0, what, v.clone()));
                        e.0 += 1;
                    }
                }
                "U" => agg.lock().unwrap().harness_errors.push(rest.to_string()),
                _ => {}
            }
        }
        let status = child.wait().ok();
        let err = errh.join().unwrap_or_default();
        if done {
            return;
        }
        // the worker died: abort (unsafe precondition, stack overflow, non-unwinding panic) or hang
        let i = match last_start {
            Some(i) => i,
            None => {
                agg.lock().unwrap().harness_errors.push(format!("worker for [{start},{end}) died before starting a run: {status:?} {}", err.chars().take(400).collect::<String>()));
                return;
            }
        };
        let mut rng = rng::Rng::new(rng::run_seed(seed, prop, i));
        let case = cases::generate(prop, &mut rng, tier == Tier::Thorough);
        let what = if hang { "hang" } else { "abort" };
        let last_err: String = err.lines().rev().take(6).collect::<Vec<_>>().into_iter().rev().collect::<Vec<_>>().join(" | ");
        let pprop = cases::panic_property(&case, "abort", &last_err).unwrap_or("");
        let v = Violation {
            property: if pprop.is_empty() { prop.to_string() } else { pprop.to_string() },
            monitor: what.into(),
            clause: if hang { "run finishes within its wall-clock budget".into() } else { "process does not abort".into() },
            layer: "process".into(),
            event: 0,
            detail: format!("worker {what} in run {i}: status {status:?}; stderr tail: {}", last_err.chars().take(600).collect::<String>()),
            sig: sig1("stderr", last_err.chars().take(300).collect::<String>()),
        };
        {
            let mut a = agg.lock().unwrap();
            if hang { a.hangs += 1 } else { a.aborts += 1 }
            if v.property == prop {
                let ff = findings::load(&root());
                if let Some(f) = findings::match_open(&ff, &v) {
                    let e = a.known.entry(f.id.clone()).or_insert((0, f.what.clone(), serde_json::json!({"run": i, "violation": v})));
                    e.0 += 1;
                } else {
                    let rf = ReplayFile { property: prop.into(), verif_seed: seed, run: i, violation: v.clone(), minimised_from_size: None, case };
                    let path = write_replay(&rf);
                    a.violations.push(serde_json::json!({"run": i, "replay": path, "violation": v}));
                }
            } else {
                *a.unarmed.entry(v.key()).or_insert(0) += 1;
            }
            a.runs += 1;
        }
        start = i + 1;
    }
}

fn check(prop: &str, tier: Tier, runs_override: Option<u64>, jobs: usize) -> i32 {
    let t0 = Instant::now();
    let seed = verif_seed();
    let Some(info) = cases::info(prop) else {
        eprintln!("altsim: unknown property {prop}");
        return 2;
    };
    println!("altsim check property={prop} tier={} VERIF_SEED={seed}", tier.name());
    if !hashseed::selftest() {
        eprintln!("altsim: hash-seed seam self-test failed (getrandom interposition not effective)");
        return 2;
    }
    let runs = runs_override.unwrap_or(match tier {
        Tier::Quick => info.quick_runs,
        Tier::Thorough => info.thorough_runs,
    });
    let jobs = jobs.max(1).min(runs.max(1) as usize);
    let agg = std::sync::Mutex::new(Agg::default());
    // contiguous ranges, several per job so that a slow range does not dominate
    let n_ranges = (jobs * 4).min(runs as usize).max(1);
    let ranges: Vec<(u64, u64)> = (0..n_ranges).map(|k| (runs * k as u64 / n_ranges as u64, runs * (k as u64 + 1) / n_ranges as u64)).filter(|(a, b)| a < b).collect();
    let next = std::sync::atomic::AtomicUsize::new(0);
    std::thread::scope(|sc| {
        for _ in 0..jobs {
            sc.spawn(|| loop {
                let k = next.fetch_add(1, std::sync::atomic::Ordering::SeqCst);
                if k >= ranges.len() {
                    break;
                }
                supervise_range(prop, tier, seed, ranges[k].0, ranges[k].1, &agg);
            });
        }
    });
    let a = agg.into_inner().unwrap();
    let wall = t0.elapsed().as_secs_f64();

    // fixed findings are regressions to replay: their witnesses must pass now
    let ff = findings::load(&root());
    let mut regression_fail = vec![];
    for f in ff.findings.iter().filter(|f| f.property == prop && f.status == "fixed") {
        if let Some(w) = &f.witness {
            let p = format!("{}/{}", root(), w);
            match replay_file(&p, false) {
                ReplayOutcome::Reproduced(v) => regression_fail.push((p.clone(), v)),
                ReplayOutcome::Clean => {}
                ReplayOutcome::Error(e) => {
                    eprintln!("altsim: cannot replay witness {p}: {e}");
                    return 2;
                }
            }
        }
    }

    // open findings: the witness is replayed on every check, so that the KNOWN-FINDING line appears on the
    // unchanged tree whether or not this batch happened to sample an instance; a witness that no longer
    // fails is reported on stderr (the finding may have been repaired) and suppresses nothing
    let mut a = a;
    for f in ff.findings.iter().filter(|f| f.property == prop && f.status == "open") {
        if a.known.contains_key(&f.id) {
            continue;
        }
        if let Some(w) = &f.witness {
            let p = format!("{}/{}", root(), w);
            match replay_file(&p, false) {
                ReplayOutcome::Reproduced(v) => {
                    if findings::match_open(&ff, &v).map(|m| m.id == f.id).unwrap_or(false) {
                        a.known.insert(f.id.clone(), (0, f.what.clone(), serde_json::json!({"witness": w, "violation": v})));
                    } else {
                        eprintln!("altsim: witness {p} of open finding {} fails differently now: {} / {}", f.id, v.monitor, v.clause);
                    }
                }
                ReplayOutcome::Clean => eprintln!("altsim: note: witness {p} of open finding {} no longer fails on this tree", f.id),
                ReplayOutcome::Error(e) => {
                    eprintln!("altsim: cannot replay witness {p}: {e}");
                    return 2;
                }
            }
        }
    }

    let mut faults = BTreeMap::new();
    let mut probes = BTreeMap::new();
    let mut stats = BTreeMap::new();
    let mut notes = BTreeMap::new();
    for (k, v) in &a.counters {
        if let Some(r) = k.strip_prefix("fault.") {
            faults.insert(r.to_string(), *v);
        } else if let Some(r) = k.strip_prefix("probe.") {
            probes.insert(r.to_string(), *v);
        } else if let Some(r) = k.strip_prefix("stat.") {
            stats.insert(r.to_string(), *v);
        } else {
            notes.insert(k.clone(), *v);
        }
    }
    let n_viol = a.violations.len() + regression_fail.len();
    let known: Vec<serde_json::Value> = a.known.iter().map(|(id, (n, what, ex))| serde_json::json!({"finding": id, "instances": n, "what": what, "example": ex})).collect();
    let ev = serde_json::json!({
        "property_id": prop,
        "tier": tier.name(),
        "seed": seed,
        "level": info.level,
        "coverage": {
            "evaluations": a.runs,
            "distinct_nontrivial": a.nontrivial_classes.len(),
            "rule": info.rule,
            "samples": a.samples,
            "nontrivial_runs": a.nontrivial,
            "distinct_classes_all": a.classes.len(),
            "simulated_seconds": a.sim_s,
            "runs_per_hour": if wall > 0.0 { (a.runs as f64 / wall * 3600.0).round() } else { 0.0 },
            "faults_fired": faults,
            "reach_probes": probes,
            "stats": stats,
            "notes": notes,
            "unarmed_events": a.unarmed,
            "known_findings": known,
            "duplicate_violation_instances": a.dup_violations,
            "aborts": a.aborts,
            "hangs": a.hangs,
            "minimiser_executions": a.minimise_execs,
            "batch_trace_hash": format!("{:016x}", a.trace_acc),
            "world": info.world,
            "components_real": info.real,
            "components_stub": info.stub,
            "workers": jobs,
            "hash_seed_seam": "getrandom interposed; per-run RandomState keys derived from the run seed",
        },
        "assumptions": info.assumptions,
        "wall_s": wall,
        "violations": n_viol,
    });
    let evdir = format!("{}/evidence", root());
    let _ = std::fs::create_dir_all(&evdir);
    if let Err(e) = std::fs::write(format!("{evdir}/{prop}.json"), serde_json::to_string_pretty(&ev).unwrap() + "\n") {
        eprintln!("altsim: cannot write evidence: {e}");
        return 2;
    }
    println!("runs={} nontrivial={} distinct_nontrivial={} sim_seconds={:.0} wall={:.1}s trace={:016x}", a.runs, a.nontrivial, a.nontrivial_classes.len(), a.sim_s, wall, a.trace_acc);
    for (id, (n, what, _)) in &a.known {
        println!("KNOWN-FINDING: property={prop} {what} [finding {id}, {n} instance(s) in this batch{}]", if *n == 0 { ", witness replayed" } else { "" });
    }
    if !a.harness_errors.is_empty() {
        for e in a.harness_errors.iter().take(5) {
            eprintln!("altsim: HARNESS ERROR {e}");
        }
        return 2;
    }
    for (p, v) in &regression_fail {
        println!("VIOLATION property={prop} replay={p}");
        println!("  regression of a fixed finding: {} / {}: {}", v.monitor, v.clause, v.detail);
    }
    for v in &a.violations {
        println!("VIOLATION property={prop} replay={}", v["replay"].as_str().unwrap_or("?"));
        println!("  {} / {} @event {} [{}]: {}", v["violation"]["monitor"].as_str().unwrap_or(""), v["violation"]["clause"].as_str().unwrap_or(""), v["violation"]["event"], v["violation"]["layer"].as_str().unwrap_or(""), v["violation"]["detail"].as_str().unwrap_or(""));
    }
    if a.runs == 0 {
        eprintln!("altsim: no runs executed");
        return 2;
    }
    if n_viol > 0 {
        1
    } else {
        0
    }
}

enum ReplayOutcome {
    Reproduced(Violation),
    Clean,
    Error(String),
}

fn replay_file(path: &str, verbose: bool) -> ReplayOutcome {
    let s = match std::fs::read_to_string(path) {
        Ok(s) => s,
        Err(e) => return ReplayOutcome::Error(format!("{e}")),
    };
    let rf: ReplayFile = match serde_yaml::from_str(&s) {
        Ok(r) => r,
        Err(e) => return ReplayOutcome::Error(format!("parse: {e}")),
    };
    install_panic_hook();
    let Some(ctx) = run_case(&rf.case, Duration::from_secs(120)) else {
        return ReplayOutcome::Reproduced(Violation { monitor: "hang".into(), ..rf.violation.clone() });
    };
    if verbose {
        for (k, n) in &ctx.counters {
            println!("  counter {k} = {n}");
        }
        for (k, n) in &ctx.dyn_counters {
            println!("  note {k} = {n}");
        }
        for v in &ctx.viol {
            println!("  observed: {} {} / {} @event {} [{}]: {}", v.property, v.monitor, v.clause, v.event, v.layer, v.detail);
            if !v.sig.is_empty() {
                println!("    sig: {}", serde_json::to_string(&v.sig).unwrap_or_default());
            }
        }
    }
    // a recorded instance of an open finding is looked for as such (the run may also hold other violations of the clause)
    let key = rf.violation.key();
    let found = match findings::classify(&rf.violation) {
        Some(id) => find_instance(&ctx, &key, &id).or_else(|| find_same(&ctx, &key)),
        None => find_same(&ctx, &key),
    };
    match found {
        Some(v) => ReplayOutcome::Reproduced(v),
        None => ReplayOutcome::Clean,
    }
}

fn selftest_determinism(props: &[String], n: u64) -> i32 {
    // every run twice, in different worker processes, at two worker counts, ranges in opposite order:
    // the per-run trace hashes (every observed state after every event) must be identical
    let seed = verif_seed();
    let exe = std::env::current_exe().unwrap();
    let mut bad = 0;
    for prop in props {
        let run = |ranges: Vec<(u64, u64)>| -> BTreeMap<u64, String> {
            let mut out = BTreeMap::new();
            let children: Vec<_> = ranges
                .iter()
                .map(|(a, b)| {
                    std::process::Command::new(&exe)
                        .args(["worker", prop, "quick", &seed.to_string(), &a.to_string(), &b.to_string()])
                        .env("ALTSIM_TRACE_EACH", "1")
                        .env("ALTSIM_ROOT", "/var/tmp/altsim-selftest")
                        .stdout(std::process::Stdio::piped())
                        .stderr(std::process::Stdio::null())
                        .spawn()
                        .unwrap()
                })
                .collect();
            for c in children {
                let o = c.wait_with_output().unwrap();
                for l in String::from_utf8_lossy(&o.stdout).lines() {
                    if let Some(r) = l.strip_prefix("T ") {
                        let mut it = r.splitn(2, ' ');
                        let i: u64 = it.next().unwrap().parse().unwrap();
                        out.insert(i, it.next().unwrap_or("").to_string());
                    }
                }
            }
            out
        };
        let a = run(vec![(0, n)]);
        let k = 16u64;
        let b = run((0..k).rev().map(|j| (n * j / k, n * (j + 1) / k)).collect());
        let mut diff = 0;
        for (i, h) in &a {
            if b.get(i) != Some(h) {
                diff += 1;
                if diff <= 3 {
                    println!("  {prop} run {i}: {h} vs {:?}", b.get(i));
                }
            }
        }
        println!("determinism {prop}: {} runs x2 (1 process vs 16 processes, reversed order), {} differences, {} missing", a.len(), diff, n as i64 - b.len() as i64);
        if diff > 0 || a.len() as u64 != n || b.len() as u64 != n {
            bad += 1;
        }
    }
    let _ = std::fs::remove_dir_all("/var/tmp/altsim-selftest");
    if bad > 0 {
        1
    } else {
        0
    }
}

fn main() {
    let args: Vec<String> = std::env::args().collect();
    let cmd = args.get(1).map(|s| s.as_str()).unwrap_or("");
    let code = match cmd {
        "worker" => {
            let tier = if args[3] == "thorough" { Tier::Thorough } else { Tier::Quick };
            if std::env::var("ALTSIM_TRACE_EACH").is_ok() {
                trace_worker(&args[2], tier, args[4].parse().unwrap(), args[5].parse().unwrap(), args[6].parse().unwrap());
            } else {
                worker(&args[2], tier, args[4].parse().unwrap(), args[5].parse().unwrap(), args[6].parse().unwrap());
            }
            0
        }
        "check" => {
            let prop = args.get(2).cloned().unwrap_or_default();
            let mut tier = match std::env::var("VERIF_TIER").ok().as_deref() {
                Some("thorough") => Tier::Thorough,
                _ => Tier::Quick,
            };
            let mut runs = None;
            let mut jobs = std::thread::available_parallelism().map(|n| n.get()).unwrap_or(8);
            let mut i = 3;
            while i < args.len() {
                match args[i].as_str() {
                    "--tier" => {
                        tier = if args.get(i + 1).map(|s| s.as_str()) == Some("thorough") { Tier::Thorough } else { Tier::Quick };
                        i += 1;
                    }
                    "--runs" => {
                        runs = args.get(i + 1).and_then(|s| s.parse().ok());
                        i += 1;
                    }
                    "--jobs" => {
                        jobs = args.get(i + 1).and_then(|s| s.parse().ok()).unwrap_or(jobs);
                        i += 1;
                    }
                    _ => {}
                }
                i += 1;
            }
            check(&prop, tier, runs, jobs)
        }
        "replay" => {
            let path = args.get(2).cloned().unwrap_or_default();
            match replay_file(&path, true) {
                ReplayOutcome::Reproduced(v) => {
                    println!("VIOLATION property={} replay={}", v.property, path);
                    println!("  reproduced: {} / {} @event {} [{}]: {}", v.monitor, v.clause, v.event, v.layer, v.detail);
                    1
                }
                ReplayOutcome::Clean => {
                    println!("replay {path}: the recorded violation does not occur on this tree");
                    0
                }
                ReplayOutcome::Error(e) => {
                    eprintln!("altsim: replay error: {e}");
                    2
                }
            }
        }
        "dump" => {
            // altsim dump <Cxx> <run> [thorough]: materialise one generated case as a replay file (debugging aid)
            let prop = args.get(2).cloned().unwrap_or_default();
            let run: u64 = args.get(3).and_then(|s| s.parse().ok()).unwrap_or(0);
            let thorough = args.get(4).map(|s| s == "thorough").unwrap_or(false);
            let mut rng = rng::Rng::new(rng::run_seed(verif_seed(), &prop, run));
            let case = cases::generate(&prop, &mut rng, thorough);
            let rf = ReplayFile { property: prop.clone(), verif_seed: verif_seed(), run, violation: Violation { property: prop.clone(), monitor: "dump".into(), clause: "dump".into(), layer: "".into(), event: 0, detail: "".into(), sig: Sig::new() }, minimised_from_size: None, case };
            println!("{}", write_replay(&rf));
            0
        }
        "taconite" => {
            let parse = |s: Option<&String>| -> Vec<f64> { s.map(|s| s.split(',').filter(|x| !x.is_empty()).map(|x| x.parse().unwrap()).collect()).unwrap_or_default() };
            match dsp::taconite(&parse(args.get(2)), &parse(args.get(3))) {
                Ok(v) => {
                    for (c, d) in &v {
                        println!("violation: {c}: {d}");
                    }
                    if v.is_empty() { 0 } else { 1 }
                }
                Err(e) => {
                    eprintln!("taconite: {e:#}");
                    2
                }
            }
        }
        "selftest" => match args.get(2).map(|s| s.as_str()) {
            Some("hashseed") => {
                let ok = hashseed::selftest();
                println!("hashseed seam: {} (orders for seeds 11,11,12: {:?} {:?} {:?})", if ok { "ok" } else { "FAILED" }, hashseed::probe_order(11), hashseed::probe_order(11), hashseed::probe_order(12));
                if ok { 0 } else { 2 }
            }
            Some("determinism") => {
                let mut props: Vec<String> = args[3..].iter().filter(|a| !a.starts_with("--")).cloned().collect();
                if props.is_empty() {
                    props = cases::PROPS.iter().map(|p| p.id.to_string()).collect();
                }
                let n = std::env::var("ALTSIM_DET_RUNS").ok().and_then(|s| s.parse().ok()).unwrap_or(400);
                selftest_determinism(&props, n)
            }
            _ => {
                eprintln!("usage: altsim selftest hashseed|determinism");
                2
            }
        },
        _ => {
            eprintln!("usage: altsim check <Cxx> [--tier quick|thorough] [--runs N] [--jobs J] | replay <file> | selftest ...");
            2
        }
    };
    std::process::exit(code);
}

/// worker variant used by the determinism self-test: prints one line per run with the full trace hash,
/// counters and violation keys
fn trace_worker(prop: &str, tier: Tier, seed: u64, start: u64, end: u64) {
    install_panic_hook();
    let out = std::io::stdout();
    for i in start..end {
        let mut rng = rng::Rng::new(rng::run_seed(seed, prop, i));
        let case = cases::generate(prop, &mut rng, tier == Tier::Thorough);
        let Some(ctx) = run_case(&case, Duration::from_secs(90)) else { continue };
        let mut h = rng::Trace::default();
        h.u(ctx.trace.0);
        for (k, v) in &ctx.counters {
            h.s(k);
            h.u(*v);
        }
        for (k, v) in &ctx.dyn_counters {
            h.s(k);
            h.u(*v);
        }
        for v in &ctx.viol {
            h.s(&v.key());
            h.u(v.event as u64);
            h.s(&v.detail);
        }
        h.f(ctx.sim_s);
        let mut o = out.lock();
        let _ = writeln!(o, "T {i} {:016x} viol={} ticks={}", h.0, ctx.viol.len(), ctx.counters.get("stat.ticks").copied().unwrap_or(0));
    }
}
