//! World `trn` (train): `SetSpeedTrainSim` and `SpeedLimitTrainSim` built through `TrainSimBuilder` over
//! generated networks. The simulator owns the step loop (and also runs the shipped `walk*` loops): it
//! delivers authority (path extensions) early / just in time / late / in batches / as empty extensions,
//! crashes and restores the whole simulation between steps, changes the save interval mid-run, and after
//! the run evaluates the reference monitors of C03 C07 C11 C12 C14 (+C19 alignment, C20 train mass) on the
//! recorded trajectory.

use crate::core::*;
use crate::net::*;
use crate::pt;
use crate::rng::Rng;
use crate::ser::{self, Chan, Fmt};
use altrios_core::consist::locomotive::locomotive_model::PowertrainType;
use altrios_core::consist::{ConsistState, PowerDistributionControlType};
use altrios_core::prelude::*;
use altrios_core::track::*;
use altrios_core::traits::Mass;
use altrios_core::train::*;
use altrios_core::uc;
use serde::{Deserialize, Serialize};
use std::collections::HashMap;

/// the library's documented gravity constant (uc::ACC_GRAV, WGS-84 at the geographic centre of the contiguous US)
const G: f64 = 9.801_548_494_963_14;
const FT1000: f64 = 304.8;

#[derive(Serialize, Deserialize, Clone, Debug)]
pub struct CarSpec {
    pub n: u32,
    pub length: f64,
    pub axle_count: u8,
    pub brake_count: u8,
    pub mass_base: f64,
    pub mass_freight: f64,
    pub speed_max: f64,
    pub braking_ratio: f64,
    pub mass_rot_per_axle: f64,
    pub bearing_res_per_axle: f64,
    pub rolling_ratio: f64,
    pub davis_b: f64,
    pub cd_area: f64,
}

#[derive(Serialize, Deserialize, Clone, Debug)]
pub enum ConUnit {
    Conv,
    Bel,
    Gen(pt::LocoSpec),
}

#[derive(Serialize, Deserialize, Clone, Debug)]
pub struct TrainSpec {
    pub cars: Vec<CarSpec>,
    pub length_override: Option<f64>,
    pub mass_override: Option<f64>,
    pub use_cd_area_vec: bool,
    pub consist: Vec<ConUnit>,
    pub pdct: String,
    #[serde(default = "freight")]
    pub train_type: TrainType,
    /// the consist is constructed around its first unit alone and gets the full set of units afterwards
    /// (`Consist::set_loco_vec`, the way the Python API re-configures a consist): whatever the constructor derived
    /// from the units must follow
    #[serde(default)]
    pub late_units: bool,
}
fn freight() -> TrainType {
    TrainType::Freight
}

#[derive(Serialize, Deserialize, Clone, Debug, PartialEq)]
pub enum When {
    /// as soon as the front is within this distance of the end of its current authority (large = early)
    Dist(f64),
    /// late: only after the train has been standing at the end of its authority for this many steps
    StoppedFor(u32),
}

#[derive(Serialize, Deserialize, Clone, Debug, PartialEq)]
pub struct Auth {
    pub k: usize,
    pub when: When,
    pub empty_first: bool,
}

#[derive(Serialize, Deserialize, Clone, Debug)]
pub enum Kind {
    /// (dt, speed) per trace step after the initial point (t0, v0)
    SetSpeed { v0: f64, trace: Vec<(f64, f64)>, shipped_walk: bool },
    /// whole path, shipped walk()
    LimitWalk { dt: f64 },
    /// simulator-driven steps with an authority delivery schedule
    LimitManual { dt: f64, first: usize, auths: Vec<Auth> },
    /// shipped walk_timed_path on a generated timed path (arrival time per link)
    LimitTimed { dt: f64, times: Vec<f64> },
}

#[derive(Serialize, Deserialize, Clone, Debug)]
pub struct Case {
    pub links: Vec<Link>,
    pub route: Vec<u32>,
    pub train: TrainSpec,
    pub kind: Kind,
    pub save_interval: Option<usize>,
    /// crash/restore before executing this (0-based) step; manual drivers only
    pub crashes: Vec<(usize, Fmt)>,
    pub interval_changes: Vec<(usize, Option<usize>)>,
    pub init_time: f64,
    pub sim_days: Option<i32>,
    pub hash_seed: u64,
    /// user-supplied initial front position (InitTrainState.offset), beyond the train length: the rear does
    /// not start at the beginning of the path
    #[serde(default)]
    pub init_offset: Option<f64>,
    /// set-speed runs: the train state is built without an initial speed (it reads 0) although the trace starts
    /// rolling - the trace, not the state, is what the run has to follow
    #[serde(default)]
    pub init_speed_unset: bool,
    /// set-speed runs: the trace's time stamps start this many seconds away from the initial time of the train
    /// state (a trace recorded against its own datum, or trimmed from the front): the run follows the trace's stamps
    #[serde(default)]
    pub trace_datum_shift: f64,
    /// before every top-level interval change one unit of the consist is given an interval of its own (a unit
    /// configured individually, or exchanged): the top-level change that follows must still reach everything,
    /// also when it sets the value the consist itself already has
    #[serde(default)]
    pub nested_drift: bool,
    /// speed-limited runs: friction-brake ramp-up time [s] set on the built simulation (the builder gives 0 s; the
    /// shipped default brake has 60 s) - the brake force then has a memory from step to step
    #[serde(default)]
    pub fric_ramp_up: Option<f64>,
}

// ------------------------------------------------------------------------------------------------
// builders
// ------------------------------------------------------------------------------------------------

pub fn car(c: &CarSpec, idx: usize) -> RailVehicle {
    RailVehicle {
        car_type: format!("T{idx}"),
        length: c.length * uc::M,
        axle_count: c.axle_count,
        brake_count: c.brake_count,
        mass_static_base: c.mass_base * uc::KG,
        mass_freight: c.mass_freight * uc::KG,
        speed_max: c.speed_max * uc::MPS,
        braking_ratio: c.braking_ratio * uc::R,
        mass_rot_per_axle: c.mass_rot_per_axle * uc::KG,
        bearing_res_per_axle: c.bearing_res_per_axle * uc::N,
        rolling_ratio: c.rolling_ratio * uc::R,
        davis_b: c.davis_b * uc::S / uc::M,
        cd_area: c.cd_area * uc::M2,
        curve_coeff_0: 0.0072 * uc::R,
        curve_coeff_1: 0.0120 * uc::R,
        curve_coeff_2: 0.0 * uc::R,
    }
}
pub const CURVE: (f64, f64, f64) = (0.0072, 0.0120, 0.0);

pub fn build_consist(t: &TrainSpec, save_interval: Option<usize>) -> Consist {
    let locos: Vec<Locomotive> = t
        .consist
        .iter()
        .map(|u| match u {
            ConUnit::Conv => Locomotive::default(),
            ConUnit::Bel => Locomotive::default_battery_electric_loco(),
            ConUnit::Gen(s) => pt::build_loco(s, save_interval),
        })
        .collect();
    let pdct = if t.pdct == "Proportional" {
        PowerDistributionControlType::Proportional(altrios_core::consist::Proportional)
    } else {
        PowerDistributionControlType::RESGreedy(altrios_core::consist::RESGreedy)
    };
    if t.late_units && locos.len() >= 2 {
        let mut c = Consist::new(vec![locos[0].clone()], save_interval, pdct);
        c.set_loco_vec(locos);
        c
    } else {
        Consist::new(locos, save_interval, pdct)
    }
}

pub fn build_train_config(t: &TrainSpec) -> anyhow::Result<TrainConfig> {
    let rvs: Vec<RailVehicle> = t.cars.iter().enumerate().map(|(i, c)| car(c, i)).collect();
    let n: HashMap<String, u32> = t.cars.iter().enumerate().map(|(i, c)| (format!("T{i}"), c.n)).collect();
    let total: u32 = t.cars.iter().map(|c| c.n).sum();
    let cd = if t.use_cd_area_vec { Some((0..total).map(|k| (3.0 + (k % 5) as f64 * 0.5) * uc::M2).collect()) } else { None };
    TrainConfig::new(rvs, n, t.train_type, t.length_override.map(|x| x * uc::M), t.mass_override.map(|x| x * uc::KG), cd)
}

/// reference aggregates re-derived from the car list (independent of make_train_sim_parts)
pub struct TrainRef {
    pub towed: f64,
    pub length: f64,
    pub mass_static: f64,
    pub mass_rot: f64,
    pub mass_freight: f64,
    pub bearing: f64,
    pub rolling_ratio: f64,
    pub davis_b: f64,
    pub cd_area: f64,
    pub speed_max: f64,
}
pub fn train_ref(t: &TrainSpec, consist_mass: f64) -> TrainRef {
    let cars_mass: f64 = t.cars.iter().map(|c| (c.mass_base + c.mass_freight) * c.n as f64).sum();
    let towed = t.mass_override.unwrap_or(cars_mass);
    let total: u32 = t.cars.iter().map(|c| c.n).sum();
    TrainRef {
        towed,
        length: t.length_override.unwrap_or(t.cars.iter().map(|c| c.length * c.n as f64).sum()),
        mass_static: towed + consist_mass,
        mass_rot: t.cars.iter().map(|c| c.mass_rot_per_axle * c.n as f64 * c.axle_count as f64).sum(),
        mass_freight: t.cars.iter().map(|c| c.mass_freight * c.n as f64).sum(),
        bearing: t.cars.iter().map(|c| c.bearing_res_per_axle * c.axle_count as f64 * c.n as f64).sum(),
        rolling_ratio: t.cars.iter().map(|c| c.rolling_ratio * (c.mass_base + c.mass_freight) * c.n as f64).sum::<f64>() / towed,
        davis_b: t.cars.iter().map(|c| c.davis_b * (c.mass_base + c.mass_freight) * c.n as f64).sum::<f64>() / towed,
        cd_area: if t.use_cd_area_vec { (0..total).map(|k| 3.0 + (k % 5) as f64 * 0.5).sum() } else { t.cars.iter().map(|c| c.cd_area * c.n as f64).sum() },
        speed_max: t.cars.iter().filter(|c| c.n > 0).map(|c| c.speed_max).fold(f64::INFINITY, f64::min),
    }
}

// ------------------------------------------------------------------------------------------------
// generator
// ------------------------------------------------------------------------------------------------

fn gen_car(rng: &mut Rng, loaded: bool) -> CarSpec {
    CarSpec {
        n: 0,
        length: *rng.pick(&[14.0, 16.5, 18.0, 21.0, 27.0]),
        axle_count: *rng.pick(&[4, 4, 6]),
        brake_count: 1,
        mass_base: Rng::round_sig(rng.range(20_000.0, 35_000.0), 3),
        mass_freight: if loaded { Rng::round_sig(rng.range(40_000.0, 105_000.0), 3) } else { 0.0 },
        speed_max: *rng.pick(&[17.0, 20.0, 22.0, 26.0, 31.0]),
        braking_ratio: Rng::round_sig(rng.range(0.07, 0.16), 3),
        mass_rot_per_axle: *rng.pick(&[600.0, 750.0, 900.0]),
        bearing_res_per_axle: Rng::round_sig(rng.range(25.0, 60.0), 3),
        rolling_ratio: Rng::round_sig(rng.range(0.0010, 0.0022), 3),
        davis_b: if rng.chance(0.5) { 0.0 } else { Rng::round_sig(rng.range(1e-5, 8e-5), 2) },
        cd_area: Rng::round_sig(rng.range(2.5, 6.0), 3),
    }
}

pub fn gen_train(rng: &mut Rng, max_cars: u32) -> TrainSpec {
    gen_train_types(rng, max_cars, 3)
}

pub fn gen_train_types(rng: &mut Rng, max_cars: u32, max_types: usize) -> TrainSpec {
    let ntypes = rng.usize(if max_types > 3 { 3 } else { 1 }, max_types);
    let mut cars: Vec<CarSpec> = (0..ntypes).map(|i| { let loaded = i == 0 || rng.chance(0.5); gen_car(rng, loaded) }).collect();
    // light trains (few cars per locomotive) are kept at a low rate: they are the shape of open finding
    // C03-light-train-stops-short-of-window and would otherwise dominate the batch
    let lo = if rng.chance(0.12) { 5 } else { 40.min(max_cars as usize) };
    let total = rng.usize(lo, max_cars.max(lo as u32) as usize) as u32;
    let mut left = total;
    for (i, c) in cars.iter_mut().enumerate() {
        c.n = if i + 1 == ntypes { left } else { rng.below(left as u64 + 1) as u32 };
        left -= c.n;
    }
    if cars.iter().all(|c| c.n == 0) {
        cars[0].n = 5;
    }
    // a car type that is listed but has no cars in this train (slower than every type that has): must not
    // contribute to anything
    if rng.chance(0.12) {
        let mut c = gen_car(rng, true);
        c.n = 0;
        c.speed_max = *rng.pick(&[9.0, 12.0, 15.0]);
        let at = rng.usize(0, cars.len());
        cars.insert(at, c);
    }
    let n_units = rng.usize(2, 6);
    let consist: Vec<ConUnit> = (0..n_units)
        .map(|_| match rng.below(10) {
            0..=5 => ConUnit::Conv,
            6 | 7 => ConUnit::Bel,
            _ => {
                // generated ratings / engine map / battery, but the shipped (flat) generator and drivetrain maps:
                // with curved maps the published consist limit is not achievable and the train controller,
                // which relies on it, ends the run with an error after a few steps
                let bel = rng.chance(0.3);
                let mut l = pt::gen_loco(rng, bel);
                match &mut l.kind {
                    pt::KindSpec::Conv { fc, gen, edrv } => {
                        gen.map = pt::MapSpec::default();
                        edrv.map = pt::MapSpec::default();
                        // the generator compares with its rating exactly; keep it from being the binding component
                        gen.p_max = gen.p_max.max(Rng::round_sig(fc.p_max * 1.25, 3));
                        edrv.p_max = edrv.p_max.max(Rng::round_sig(fc.p_max * 1.1, 3));
                    }
                    pt::KindSpec::Bel { edrv, .. } => edrv.map = pt::MapSpec::default(),
                    _ => {}
                }
                ConUnit::Gen(l)
            }
        })
        .collect();
    // one train in twelve carries the shipped hybrid unit (engine + battery on one locomotive); speed-limited runs
    // with it mostly end early (its engine refuses the controller's ramp), so it is kept rare
    let mut consist = consist;
    if rng.chance(0.08) {
        let k = rng.usize(0, consist.len() - 1);
        consist[k] = ConUnit::Gen(pt::LocoSpec { kind: pt::KindSpec::Hybrid, aux_offset: 0.0, aux_coeff: 0.0 });
    }
    let cars_mass: f64 = cars.iter().map(|c| (c.mass_base + c.mass_freight) * c.n as f64).sum();
    let cars_len: f64 = cars.iter().map(|c| c.length * c.n as f64).sum();
    TrainSpec {
        length_override: if rng.chance(0.15) { Some(Rng::round_sig(cars_len * rng.range(0.8, 1.3), 4)) } else { None },
        mass_override: if rng.chance(0.15) { Some(Rng::round_sig(cars_mass * rng.range(0.7, 1.2), 4)) } else { None },
        use_cd_area_vec: rng.chance(0.1),
        cars,
        consist,
        pdct: if rng.chance(0.6) { "RESGreedy".into() } else { "Proportional".into() },
        train_type: TrainType::Freight,
        late_units: rng.chance(0.1),
    }
}

pub fn gen_net_for_trains(rng: &mut Rng, focus: &str) -> (Vec<Link>, usize) {
    gen_net_for_trains_opt(rng, focus, false, false)
}
/// `downhill`: a long corridor that only descends (at the domain's grade bound) in the forward direction
pub fn gen_net_for_trains_opt(rng: &mut Rng, focus: &str, downhill: bool, steep: bool) -> (Vec<Link>, usize) {
    let mut o = NetOpts::small(rng);
    o.n_sidings = rng.usize(0, 3);
    o.grade_bound = *rng.pick(&[0.0, 0.002, 0.004, 0.006, 0.008]);
    o.tail_end_only = rng.chance(0.6);
    o.base_speed = (8.0, 26.0);
    match rng.below(4) {
        // links much shorter than one step of travel (several boundaries per step) mixed with long ones
        0 => {
            o.n_sidings = rng.usize(2, 5);
            o.main_len = (60.0, 2500.0);
            o.siding_len = (60.0, 900.0);
        }
        1 => {
            o.main_len = (2000.0, 15000.0);
            o.siding_len = (1500.0, 4000.0);
        }
        _ => {
            o.main_len = (300.0, 6000.0);
            o.siding_len = (200.0, 2500.0);
        }
    }
    o.max_restr = match focus {
        "C03" | "C13" | "C02" => rng.usize(0, 4),
        _ => rng.usize(0, 2),
    };
    o.params = false;
    o.by_type = rng.chance(0.2);
    if steep {
        o.grade_bound = 0.008;
    }
    if downhill {
        o.descending = true;
        o.grade_bound = 0.008;
        o.main_len = (3000.0, 15000.0);
        o.siding_len = (1500.0, 4000.0);
        o.n_sidings = rng.usize(1, 3);
        o.max_restr = rng.usize(0, 1);
    }
    (gen_network(rng, &o), o.n_sidings)
}

pub fn generate(rng: &mut Rng, focus: &str, thorough: bool) -> Case {
    // heavy train behind few units on a long descent, with a friction brake that ramps up slowly: the friction
    // brake (not the dynamic brake) holds the speed, and what it can do depends on what it did a step ago
    let downhill = focus != "C14" && focus != "C18" && focus != "C13" && focus != "C02" && rng.chance(if focus == "C03" { 0.1 } else { 0.05 });
    // its mirror image: the same heavy train on an ordinary line with grades at the domain bound, mostly with
    // 2 s steps - it loses speed on every climb and may stall outright (force deficit x step > speed left)
    let heavy_up = !downhill && focus != "C14" && focus != "C18" && focus != "C13" && focus != "C02" && rng.chance(if focus == "C12" || focus == "C03" { 0.1 } else { 0.05 });
    let (links, ns) = gen_net_for_trains_opt(rng, focus, downhill, heavy_up);
    let choice = rng.next();
    let full = if downhill || rng.chance(0.75) { fwd_route(ns, choice) } else { rev_route(ns, choice) };
    let route: Vec<u32> = full.iter().map(|x| *x as u32).collect();
    let path_len: f64 = route.iter().map(|l| links[*l as usize].length.value).sum();
    // keep trains shorter than the route so that they fit on it at the start
    let max_cars = ((path_len * 0.6 / 18.0) as u32).clamp(6, if thorough { 150 } else { 90 });
    // for C18 more car types: sums over the per-type map must not depend on its iteration order
    let mut train = if focus == "C18" { gen_train_types(rng, max_cars, 7) } else { gen_train(rng, max_cars) };
    if downhill || heavy_up {
        // one unit (dynamic braking well below what the descent asks for) more often than two
        let keep = if rng.chance(0.65) { 1 } else { 2 };
        train.consist.truncate(keep);
        let n_now: u32 = train.cars.iter().map(|c| c.n).sum();
        if n_now > 0 && n_now < max_cars {
            let f = max_cars as f64 / n_now as f64;
            for c in train.cars.iter_mut() {
                c.n = (c.n as f64 * f) as u32;
            }
        }
        for c in train.cars.iter_mut() {
            c.mass_freight = c.mass_freight.max(60_000.0);
        }
        train.mass_override = None;
    }
    let set_speed_kind = match focus {
        "C14" => true,
        "C03" | "C13" | "C02" => false,
        _ => !downhill && !heavy_up && rng.chance(0.4),
    };
    // a speed-limited run needs room for the train plus its braking curve from the end of authority
    let room = if set_speed_kind { 50.0 } else { 2500.0 };
    loop {
        let len_now: f64 = train.cars.iter().map(|c| c.length * c.n as f64).sum();
        if len_now + room <= path_len || train.cars.iter().map(|c| c.n).sum::<u32>() <= 5 {
            break;
        }
        for c in train.cars.iter_mut() {
            c.n = (c.n * 2) / 3;
        }
        if train.cars.iter().all(|c| c.n == 0) {
            train.cars[0].n = 5;
        }
        train.length_override = None;
        train.mass_override = None;
    }
    let len_now = train.length_override.unwrap_or(train.cars.iter().map(|c| c.length * c.n as f64).sum());
    if len_now > path_len * 0.8 {
        train.length_override = Some(Rng::round_sig(path_len * 0.5, 3));
    }
    let train_len = train.length_override.unwrap_or(len_now);
    let mut links = links;
    if !set_speed_kind {
        // braking curves are evaluated with the whole train on the path: a limit drop inside the first
        // train length (+ braking distance) of the route ends the run at set-up with an error, so the
        // part of the route the train starts on carries one common limit
        let mut cum = 0.0;
        let mut base0: Option<altrios_core::si::Velocity> = None;
        for l in &route {
            if cum >= train_len + 1500.0 {
                break;
            }
            let link = &mut links[*l as usize];
            let len = link.length;
            let fix = |ss: &mut SpeedSet, base0: &mut Option<altrios_core::si::Velocity>| {
                let b = *base0.get_or_insert(ss.speed_limits.iter().map(|x| x.speed).fold(f64::INFINITY * uc::MPS, |a, b| a.min(b)).max(6.0 * uc::MPS));
                ss.speed_limits = vec![SpeedLimit { offset_start: 0.0 * uc::M, offset_end: len, speed: b }];
            };
            if let Some(ss) = link.speed_set.as_mut() {
                fix(ss, &mut base0);
            }
            let mut keys: Vec<TrainType> = link.speed_sets.keys().copied().collect();
            keys.sort_by_key(|k| *k as u8);
            for k in keys {
                if k == TrainType::Freight {
                    fix(link.speed_sets.get_mut(&k).unwrap(), &mut base0);
                }
            }
            cum += len.value;
        }
    }
    // restriction sets gated by a train parameter, with thresholds at / one off the train's own value (every
    // compare type): beyond the part of the route the train starts on, so that a set that does not apply (the
    // link then only has the train's own maximum) or applies cannot end the run at set-up
    if focus != "C18" && rng.chance(match focus { "C03" => 0.2, "C13" | "C02" => 0.35, _ => 0.1 }) {
        let axles: u32 = train.cars.iter().map(|c| c.axle_count as u32 * c.n).sum();
        let mut cum = 0.0;
        for l in &route {
            let link = &mut links[*l as usize];
            let len = link.length.value;
            if cum >= train_len + 1500.0 && rng.chance(0.5) {
                let ct = *rng.pick(&[CompareType::TpEqualRp, CompareType::TpGreaterThanRp, CompareType::TpLessThanRp, CompareType::TpGreaterThanEqualRp, CompareType::TpGreaterThanEqualRp, CompareType::TpLessThanEqualRp, CompareType::TpLessThanEqualRp]);
                let val = (axles as i64 + *rng.pick(&[0i64, 0, 0, -1, 1, -8, 8])).max(0) as f64;
                let p = SpeedParam { limit_val: val, limit_type: LimitType::AxleCount, compare_type: ct };
                if let Some(ss) = link.speed_set.as_mut() {
                    ss.speed_params = vec![p];
                }
                for ss in link.speed_sets.values_mut() {
                    ss.speed_params = vec![p];
                }
            }
            cum += len;
        }
    }
    let set_speed = set_speed_kind;
    let save_interval = match rng.below(10) {
        0 => None,
        1 => Some(2),
        2 => Some(rng.usize(3, 7)),
        _ => Some(1),
    };
    let mut exact_landing = false;
    let kind = if set_speed {
        // non-negative speed trace with irregular time stamps: plateaus, stops, hard accelerations, dt jumps
        let n = rng.usize(10, if thorough { 400 } else { 150 });
        let vmax = 22.0;
        let mut v = if rng.chance(0.5) { 0.0 } else { Rng::round_sig(rng.range(0.0, 15.0), 3) };
        let v0 = v;
        let mut trace = vec![];
        let mut dist = 0.0;
        let train_len = train.length_override.unwrap_or(train.cars.iter().map(|c| c.length * c.n as f64).sum());
        let mut phase = 0u64;
        let mut left = 0;
        for _ in 0..n {
            if left == 0 {
                phase = rng.below(6);
                left = rng.usize(2, 25);
            }
            left -= 1;
            let dt = match rng.below(8) {
                0 => 0.25,
                1 => 2.0,
                2 => *rng.pick(&[0.5, 3.0, 5.0]),
                _ => 1.0,
            };
            let a = match phase {
                0 => rng.range(0.02, 0.25),
                1 => -rng.range(0.02, 0.4),
                2 => 0.0,
                3 => rng.range(0.3, 1.5), // beyond what the consist can deliver: the clip binds
                4 => -rng.range(0.5, 1.2), // hard braking: the lower clip binds
                _ => rng.range(-0.1, 0.1),
            };
            let vn = Rng::round_sig((v + a * dt).clamp(0.0, vmax), 4);
            let step = 0.5 * (v + vn) * dt;
            if train_len + dist + step > path_len - 5.0 {
                break;
            }
            dist += step;
            v = vn;
            trace.push((dt, v));
        }
        if trace.len() < 3 {
            trace = vec![(1.0, 0.5), (1.0, 1.0), (1.0, 0.5)];
        }
        // one set-speed case in eight runs the front EXACTLY onto the end of the route (bit for bit: dyadic speeds
        // and steps, lengths that are multiples of 0.5 m) and dwells there - the one front position no later
        // segment can claim
        let rem = path_len - train_len;
        let mut v0 = v0;
        if rng.chance(0.125) && rem >= 18.0 && rem <= 40_000.0 && (rem * 2.0).fract() == 0.0 && (train_len * 2.0).fract() == 0.0 {
            let n = ((rem - 18.0) / 16.0).floor();
            let k = ((rem - 18.0 - 16.0 * n) / 0.5).round() as usize;
            v0 = 0.0;
            trace = vec![(1.0, 2.0)];
            trace.extend(std::iter::repeat((0.25, 2.0)).take(k));
            trace.push((1.0, 16.0));
            trace.extend(std::iter::repeat((1.0, 16.0)).take(n as usize));
            trace.push((1.0, 0.0));
            trace.extend(std::iter::repeat((1.0, 0.0)).take(3));
            exact_landing = true;
        }
        // C14: a trace containing a negative speed must be rejected (at that step at the latest)
        if !exact_landing && rng.chance(0.05) {
            let j = rng.usize(0, trace.len() - 1);
            trace[j].1 = -*rng.pick(&[0.01, 0.5, 3.0]);
        }
        // ... including its very first sample
        let v0 = if !exact_landing && rng.chance(0.015) { -*rng.pick(&[0.01, 0.5, 3.0]) } else { v0 };
        Kind::SetSpeed { v0, trace, shipped_walk: rng.chance(0.4) }
    } else {
        let dt = if heavy_up && rng.chance(0.7) { 2.0 } else { *rng.pick(&[1.0, 1.0, 1.0, 0.5, 2.0]) };
        match rng.below(10) {
            0..=2 => Kind::LimitWalk { dt },
            3 | 4 => {
                // timed path: planned arrival per link, with ties and occasional out-of-order times; the links
                // needed to hold the train and its braking curve are due before the departure time so that
                // walk_timed_path delivers them as one batch
                let mut cum = 0.0;
                let mut kmin = route.len();
                for (j, l) in route.iter().enumerate() {
                    cum += links[*l as usize].length.value;
                    if cum >= train_len + 2500.0 {
                        kmin = j + 1;
                        break;
                    }
                }
                let t_dep = 1000.0;
                let mut t = t_dep;
                let times = route
                    .iter()
                    .enumerate()
                    .map(|(j, l)| {
                        if j < kmin {
                            return t_dep - 100.0 + j as f64;
                        }
                        let x = t;
                        let len = links[*l as usize].length.value;
                        t += match rng.below(6) {
                            0 => 0.0,
                            1 => -rng.range(0.0, 30.0),
                            _ => len / rng.range(4.0, 25.0),
                        };
                        Rng::round_sig(x.max(0.0), 6)
                    })
                    .collect();
                Kind::LimitTimed { dt, times }
            }
            _ => {
                // the first authority must hold the train and its braking curve
                let mut cum = 0.0;
                let mut kmin = route.len();
                for (j, l) in route.iter().enumerate() {
                    cum += links[*l as usize].length.value;
                    if cum >= train_len + 2500.0 {
                        kmin = j + 1;
                        break;
                    }
                }
                let first = rng.usize(kmin, route.len());
                let mut left = route.len() - first;
                let mut auths = vec![];
                while left > 0 {
                    let k = rng.usize(1, left);
                    let when = match rng.below(6) {
                        0 | 1 => When::Dist(Rng::round_sig(rng.range(3000.0, 12000.0), 3)),
                        2 => When::Dist(Rng::round_sig(rng.range(200.0, 2500.0), 3)),
                        3 => When::Dist(0.0),
                        _ => When::StoppedFor(rng.usize(0, 40) as u32),
                    };
                    auths.push(Auth { k, when, empty_first: rng.chance(0.15) });
                    left -= k;
                }
                Kind::LimitManual { dt, first, auths }
            }
        }
    };
    let manual = matches!(kind, Kind::LimitManual { .. } | Kind::LimitWalk { .. } | Kind::LimitTimed { .. } | Kind::SetSpeed { shipped_walk: false, .. });
    let timed = matches!(kind, Kind::LimitTimed { .. });
    let mut crashes = vec![];
    let mut interval_changes = vec![];
    if manual && rng.chance(0.5) {
        for _ in 0..rng.usize(1, 3) {
            crashes.push((rng.usize(0, 600), *rng.pick(&[Fmt::Yaml, Fmt::Yaml, Fmt::Bin, Fmt::Json])));
        }
        crashes.sort_by_key(|x| x.0);
    }
    if manual && rng.chance(0.2) {
        interval_changes.push((rng.usize(1, 200), *rng.pick(&[None, Some(1), Some(2), Some(5)])));
    }
    let mut c = Case {
        links,
        route,
        train,
        kind,
        save_interval,
        crashes,
        interval_changes,
        init_time: if timed { 1000.0 } else if rng.chance(0.5) { 0.0 } else { Rng::round_sig(rng.range(0.0, 5000.0), 5) },
        sim_days: if rng.chance(0.5) { None } else { Some(*rng.pick(&[1, 7, 30])) },
        hash_seed: rng.next(),
        init_offset: None,
        init_speed_unset: false,
        trace_datum_shift: 0.0,
        nested_drift: false,
        fric_ramp_up: None,
    };
    if matches!(c.kind, Kind::SetSpeed { .. }) && rng.chance(0.08) {
        c.trace_datum_shift = *rng.pick(&[3600.0, 600.0, -250.0, 0.5, 86400.0]);
    }
    if !matches!(c.kind, Kind::SetSpeed { .. }) && (downhill || rng.chance(0.12)) {
        c.fric_ramp_up = Some(if downhill { *rng.pick(&[20.0, 60.0, 60.0]) } else { *rng.pick(&[5.0, 20.0, 60.0]) });
    }
    if !c.interval_changes.is_empty() && rng.chance(0.4) {
        c.nested_drift = true;
        // ... including a change to the value that is already in force (twice the same, or the initial one)
        let (k0, v0) = c.interval_changes[0];
        c.interval_changes.push((k0 + rng.usize(1, 40), if rng.chance(0.7) { v0 } else { c.save_interval }));
        if rng.chance(0.4) {
            c.interval_changes.insert(0, (k0.saturating_sub(1).max(1), c.save_interval));
        }
        c.interval_changes.sort_by_key(|x| x.0);
    }
    if let Kind::SetSpeed { v0, .. } = &c.kind {
        c.init_speed_unset = *v0 > 0.0 && rng.chance(0.12);
    }
    // initial front position beyond the train length, inside the first link of the route
    if exact_landing {
        // (time stamps are sums too: only an integral start keeps every step size, and so every position, exact)
        c.init_time = c.init_time.floor();
    }
    if !exact_landing && rng.chance(0.2) {
        let tl = train_ref(&c.train, 0.0).length;
        let first_len = c.links[c.route[0] as usize].length.value;
        let room = (first_len - tl - 1.0).min(3000.0);
        if room > 2.0 {
            c.init_offset = Some(Rng::round_sig(tl + rng.range(1.0, room), 6));
        }
    }
    // train type from the case's own random bits (no extra draw); it selects the per-type restriction set
    c.train.train_type = crate::trk::type_from_bits(c.hash_seed >> 17);
    c
}

// ------------------------------------------------------------------------------------------------
// recorded trajectory
// ------------------------------------------------------------------------------------------------

pub struct Traj {
    /// states[0] = before the first step, states[k] = after step k
    pub states: Vec<TrainState>,
    pub con: Vec<ConsistState>,
    /// per recorded step: sums over the locomotives of (energy_out, fuel energy, battery chemical energy); empty
    /// when the trajectory was read back from histories
    pub loco_sums: Vec<(f64, f64, f64)>,
    /// friction-brake force after each recorded step (speed-limited runs; empty otherwise)
    #[allow(dead_code)]
    pub fric: Vec<f64>,
    /// friction-brake ramp-up time of the run [s] (0 = builder default)
    pub fric_ramp_up: f64,
    /// path length (end of authority) known when step k was executed
    pub auth_end: Vec<f64>,
    /// route prefix delivered when step k was executed
    pub delivered: Vec<usize>,
}

fn first(e: &anyhow::Error) -> String {
    format!("{e:#}").lines().filter(|l| !l.trim().is_empty()).last().unwrap_or("").trim().chars().take(140).collect()
}

fn descriptive(e: &anyhow::Error) -> bool {
    let s = format!("{e:#}").to_lowercase();
    !s.trim().is_empty()
        && ["power", "brak", "contiguous", "offset", "speed", "limit", "force", "soc", "path", "link", "time step", "condition"].iter().any(|k| s.contains(k))
}

/// An error is an accepted way for a run to end, so it must not become the way out for a broken controller:
/// when a speed-limited run ends with the "not sufficient power to move" family of errors, the stall is
/// re-derived from the published consist limits, the reference resistance at the train's position and
/// the documented force balance. `Some(text)` = the reference sees no stall (the error is spurious).
fn spurious_stall(sim: &SpeedLimitTrainSim, e: &anyhow::Error, links: &[Link], route_delivered: &[usize], r: &TrainRef) -> Option<String> {
    let msg = format!("{e:#}");
    if !msg.contains("sufficient power to move") {
        return None;
    }
    let st = &sim.state;
    let (x, v, dt) = (st.offset.value, st.speed.value, st.dt.value);
    let path_len: f64 = route_delivered.iter().map(|l| links[*l].length.value).sum();
    let xb = x - r.length;
    if !(xb >= -1e-9 && x <= path_len + 1e-9) {
        return None;
    }
    let w = r.mass_static * G;
    let (ef, eb) = (ref_elev(links, route_delivered, x), ref_elev(links, route_delivered, xb.max(0.0)));
    let (cf, cb) = (ref_curve_net(links, route_delivered, x, CURVE), ref_curve_net(links, route_delivered, xb.max(0.0), CURVE));
    let res = w * (ef - eb) / r.length + w * (cf - cb) / r.length + r.rolling_ratio * w + r.bearing + r.davis_b * v * w + r.cd_area * 1.225 * v * v;
    let m = r.mass_static + r.mass_rot;
    let tpm = dt / m;
    let p_max = sim.loco_con.state.pwr_out_max.value.min((st.pwr_whl_out.value + sim.loco_con.state.pwr_rate_out_max.value * dt).max(0.0));
    let a = v - res * tpm;
    let v_max = 0.5 * (a + (a * a + 4.0 * tpm * p_max).sqrt());
    let f_con = sim.loco_con.force_max().ok()?.value;
    let target = st.speed_target.value;
    let denom = target.min(v_max);
    let f_pos = if denom > 0.0 { f_con.min(p_max / denom) } else { f_con };
    let f_target = res + m * (target - v) / dt;
    let v_new = v + tpm * (f_pos.min(f_target) - res);
    // generous margins: the reference must be sure
    let stalls = (v < 0.0447 * 1.02 && f_pos <= res * 1.02) || v_new < -1e-7;
    if stalls {
        None
    } else {
        Some(format!("speed {v}, target {target}, reference resistance {res:.0} N, consist force_max {f_con:.0} N, available power {p_max:.0} W => tractive force {f_pos:.0} N, next speed {v_new}"))
    }
}

// ------------------------------------------------------------------------------------------------
// monitors
// ------------------------------------------------------------------------------------------------

/// `speed_before_first`: the speed before the first step when it is not the initial state's (a set-speed run
/// follows its trace from the trace's first sample on)
fn check_kinematics(ctx: &mut Ctx, tr: &Traj, links: &[Link], route: &[usize], length: f64, speed_before_first: Option<f64>, first_step_joins_trace_datum: bool) {
    let s = &tr.states;
    let mut dist = s[0].total_dist.value;
    let mut bases = vec![0.0];
    for l in route {
        bases.push(bases.last().unwrap() + links[*l].length.value);
    }
    for k in 1..s.len() {
        ctx.event = k;
        let (a, b) = (&s[k - 1], &s[k]);
        let dt = b.dt.value;
        // (the initial state precedes the trace: when the trace has a datum of its own the first executed step joins it)
        if !(k == 1 && first_step_joins_trace_datum) && !close(b.time.value - a.time.value, dt, 1e-12, 1e-9, b.time.value.abs()) {
            ctx.violate("C12", "kinematics", "time advances by exactly the step size", format!("step {k}: time {} -> {} with dt {dt}", a.time.value, b.time.value));
        }
        let va = if k == 1 { speed_before_first.unwrap_or(a.speed.value) } else { a.speed.value };
        let adv = dt * 0.5 * (va + b.speed.value);
        if (b.offset.value - a.offset.value - adv).abs() > 1e-5 {
            ctx.violate("C12", "kinematics", "front advances by dt x mean speed", format!("step {k}: offset {} -> {} (delta {}), dt*mean speed = {adv} (v {} -> {})", a.offset.value, b.offset.value, b.offset.value - a.offset.value, a.speed.value, b.speed.value));
        }
        if (b.offset_back.value - (b.offset.value - length)).abs() > 1e-6 {
            let stale = (b.offset_back.value - (a.offset.value - length)).abs() <= 1e-6;
            ctx.violate_sig("C12", "kinematics", "rear = front - train length", format!("step {k}: offset {} offset_back {} length {length} (rear equals the PREVIOUS front minus length: {stale})", b.offset.value, b.offset_back.value), sig1("rear_is_one_step_stale", stale));
        }
        dist += (b.offset.value - a.offset.value).abs();
        if !close(b.total_dist.value, dist, 1e-9, 1e-5, 0.0) {
            ctx.violate("C12", "kinematics", "total distance = sum of |position changes|", format!("step {k}: total_dist {} vs {dist}", b.total_dist.value));
        }
        // reported front segment / in-segment offset identify the front position
        let off = b.offset.value;
        let n_deliv = tr.delivered[k].min(route.len());
        let mut ok = false;
        for j in 0..n_deliv {
            // a front exactly on a boundary may be reported at the end of the earlier link or the start of the next
            if bases[j] - 1e-9 <= off && off <= bases[j + 1] + 1e-9 && b.link_idx_front as usize == route[j] {
                let oil = b.offset_in_link.value;
                if (bases[j] + oil - off).abs() <= 1e-6 && oil >= -1e-9 && oil <= links[route[j]].length.value + 1e-9 {
                    ok = true;
                }
            }
        }
        if !ok && off <= bases[n_deliv] + 1e-9 {
            ctx.violate("C12", "kinematics", "front segment and in-segment offset identify the front position", format!("step {k}: offset {off} reported link {} offset_in_link {} (route {:?}, bases {:?})", b.link_idx_front, b.offset_in_link.value, &route[..n_deliv], &bases[..n_deliv + 1].iter().map(|x| (x * 100.0).round() / 100.0).collect::<Vec<_>>()));
        }
        if k >= 1 {
            let crossed = (0..bases.len()).filter(|j| a.offset.value < bases[*j] && bases[*j] <= off).count();
            if crossed >= 2 {
                ctx.hit("probe.step.crossed_2_links");
            }
        }
    }
}

fn check_resistance(ctx: &mut Ctx, tr: &Traj, links: &[Link], route: &[usize], r: &TrainRef) {
    let s = &tr.states;
    let w = r.mass_static * G;
    let path_len: f64 = route.iter().map(|l| links[*l].length.value).sum();
    for k in 1..s.len() {
        ctx.event = k;
        let (a, b) = (&s[k - 1], &s[k]);
        // forces saved at step k were computed at the position and speed saved at step k-1
        let (x, v) = (a.offset.value, a.speed.value);
        let xb = x - r.length;
        let tol = |scale: f64| 1e-9 * scale.abs().max(w * 1e-6) + 1e-6;
        let chk = |ctx: &mut Ctx, clause: &str, got: f64, want: f64| {
            if (got - want).abs() > tol(want) || !got.is_finite() {
                ctx.violate("C07", "resistance", clause, format!("step {k} (front {x:.3} m, rear {xb:.3} m, v {v}): reported {got} vs definition {want} (diff {:e})", got - want));
            }
        };
        chk(ctx, "weight = g x static mass", b.weight_static.value, w);
        chk(ctx, "bearing = per-axle total", b.res_bearing.value, r.bearing);
        chk(ctx, "rolling = coefficient x weight", b.res_rolling.value, r.rolling_ratio * w);
        chk(ctx, "davis_b = coefficient x speed x weight", b.res_davis_b.value, r.davis_b * v * w);
        chk(ctx, "aero = drag area x air density x speed^2", b.res_aero.value, r.cd_area * 1.225 * v * v);
        if x <= path_len + 1e-9 && xb >= -1e-9 {
            let (ef, eb) = (ref_elev(links, route, x), ref_elev(links, route, xb.max(0.0)));
            chk(ctx, "grade = weight x (elev front - elev rear) / length", b.res_grade.value, w * (ef - eb) / r.length);
            let (cf, cb) = (ref_curve_net(links, route, x, CURVE), ref_curve_net(links, route, xb.max(0.0), CURVE));
            chk(ctx, "curve = weight x (cumulative curve front - rear) / length", b.res_curve.value, w * (cf - cb) / r.length);
            if (b.elev_front.value - ef).abs() > 1e-9 * ef.abs() + 1e-6 {
                ctx.violate("C07", "resistance", "reported front elevation = track elevation at the front", format!("step {k}: elev_front {} vs {ef} at {x}", b.elev_front.value));
            }
            // grades of the track at the front and at the rear (either adjacent segment on a breakpoint)
            let slopes = |pos: f64| -> (f64, f64) {
                let d = 1e-4;
                let p0 = (pos - d).max(0.0);
                let p1 = (pos + d).min(path_len);
                ((ref_elev(links, route, pos) - ref_elev(links, route, p0)) / (pos - p0).max(1e-12), (ref_elev(links, route, p1) - ref_elev(links, route, pos)) / (p1 - pos).max(1e-12))
            };
            let (f0, f1) = slopes(x);
            let gf = b.grade_front.value;
            if (gf - f0).abs() > 1e-6 && (gf - f1).abs() > 1e-6 {
                ctx.violate("C07", "resistance", "reported front grade = track grade at the front", format!("step {k}: grade_front {gf} vs track grade {f0} / {f1} at {x}"));
            }
            let (b0, b1) = slopes(xb.max(0.0));
            let gb = b.grade_back.value;
            if (gb - b0).abs() > 1e-6 && (gb - b1).abs() > 1e-6 {
                let mut sg = sig1("equals_front_grade", (gb - gf).abs() < 1e-15);
                sg.insert("k".into(), k.into());
                ctx.violate_sig("C07", "resistance", "reported rear grade = track grade at the rear", format!("step {k}: grade_back {gb} vs track grade {b0} / {b1} at rear {xb} (grade_front {gf})"), sg);
            }
            if (f0 - b0).abs() > 1e-9 {
                ctx.hit("probe.res.front_and_rear_on_different_grades");
            }
        }
    }
}

/// C07 "backward evaluation during braking-curve construction": the resistance model's cached front / rear
/// indices are driven the way `BrakingPoints::recalc` drives them - jump to the end of the path, sweep
/// backwards in steps from millimetres to kilometres (several breakpoints per step, zero-length steps),
/// return forwards - on a copy of the run's own resistance object, i.e. starting from whatever cache
/// state the run left behind (incl. after a crash/restore or a path extension re-based it).
fn check_backward_sweep(ctx: &mut Ctx, state: &TrainState, train_res: &TrainRes, path: &PathTpc, links: &[Link], route_delivered: &[usize], r: &TrainRef, seed: u64) {
    use altrios_core::lin_search_hint::Dir;
    let mut rng = Rng::new(seed ^ 0xbac4_5eed);
    let mut tr = train_res.clone();
    let path_len: f64 = route_delivered.iter().map(|l| links[*l].length.value).sum();
    let end = path.offset_end().value.min(path_len);
    if end < r.length + 1.0 {
        return;
    }
    let mut states: Vec<TrainState> = vec![];
    let mut cur = *state;
    let mut x = end;
    let mut dirs: Vec<&'static str> = vec![];
    cur.offset = x * uc::M;
    cur.speed = 0.0 * uc::MPS;
    states.push(cur);
    let mut dir = Dir::Unk;
    let mut name = "Unk";
    let mut going_back = true;
    for _ in 0..rng.usize(8, 60) {
        let mut st = *states.last().unwrap();
        if let Err(e) = tr.update_res(&mut st, path, &dir) {
            ctx.violate("C07", "resistance", "backward evaluation succeeds inside the path", format!("update_res({name}) at front {x} m (path 0..{end}, train {} m): {}", r.length, first(&e)));
            return;
        }
        dirs.push(name);
        // next position
        let step = match rng.below(6) {
            0 => 0.0,
            1 => rng.range(0.001, 0.5),
            2 | 3 => rng.range(1.0, 60.0),
            4 => rng.range(60.0, 600.0),
            _ => rng.range(600.0, 4000.0),
        };
        if going_back {
            if x - step < r.length + 1e-3 {
                going_back = false;
            } else {
                x -= step;
            }
            dir = Dir::Bwd;
            name = "Bwd";
        }
        if !going_back {
            x = (x + step).min(end);
            dir = Dir::Fwd;
            name = "Fwd";
        }
        st.offset = x * uc::M;
        st.speed = rng.range(0.0, 25.0) * uc::MPS;
        states.push(st);
    }
    ctx.hit("probe.res.backward_sweep");
    let n0 = ctx.viol.len();
    let synth = Traj { states, con: vec![], loco_sums: vec![], fric: vec![], fric_ramp_up: 0.0, auth_end: vec![], delivered: vec![] };
    check_resistance(ctx, &synth, links, route_delivered, r);
    for v in ctx.viol.iter_mut().skip(n0) {
        if v.property == "C07" {
            let k = v.event;
            v.detail = format!("backward sweep (directions {:?}): {}", &dirs[k.saturating_sub(3).min(dirs.len())..k.min(dirs.len())], v.detail);
            v.sig.insert("backward_sweep".into(), true.into());
        }
    }
}

/// sums over the locomotives of (energy_out, fuel energy, battery chemical energy) - every unit kind that has
/// an engine contributes its fuel, every unit kind that has a battery its chemical energy
fn loco_sums(con: &Consist) -> (f64, f64, f64) {
    let mut s = (0.0, 0.0, 0.0);
    for l in &con.loco_vec {
        s.0 += l.state.energy_out.value;
        match &l.loco_type {
            PowertrainType::ConventionalLoco(c) => s.1 += c.fc.state.energy_fuel.value,
            PowertrainType::BatteryElectricLoco(b) => s.2 += b.res.state.energy_out_chemical.value,
            PowertrainType::HybridLoco(h) => {
                s.1 += h.fc.state.energy_fuel.value;
                s.2 += h.res.state.energy_out_chemical.value;
            }
            _ => {}
        }
    }
    s
}
/// the same sums read from the units' saved histories at entry k (missing entries count as NaN -> reported)
fn loco_sums_at(con: &Consist, k: usize) -> (f64, f64, f64) {
    let mut s = (0.0, 0.0, 0.0);
    let at = |v: &Vec<altrios_core::si::Energy>| v.get(k).map(|x| x.value).unwrap_or(f64::NAN);
    for l in &con.loco_vec {
        s.0 += at(&l.history.energy_out);
        match &l.loco_type {
            PowertrainType::ConventionalLoco(c) => s.1 += at(&c.fc.history.energy_fuel),
            PowertrainType::BatteryElectricLoco(b) => s.2 += at(&b.res.history.energy_out_chemical),
            PowertrainType::HybridLoco(h) => {
                s.1 += at(&h.fc.history.energy_fuel);
                s.2 += at(&h.res.history.energy_out_chemical);
            }
            _ => {}
        }
    }
    s
}

/// one unit gets an interval of its own, different from the one about to be set at the top
fn nested_drift(con: &mut Consist, about_to_set: Option<usize>) {
    let own = if about_to_set == Some(9) { None } else { Some(9) };
    let n = con.loco_vec.len();
    if let Some(l) = con.loco_vec.get_mut(n / 2) {
        l.set_save_interval(own);
    }
}

fn check_levels(ctx: &mut Ctx, tr: &Traj) {
    for k in 1..tr.states.len() {
        ctx.event = k;
        let (t, c) = (&tr.states[k], &tr.con[k]);
        // consist level vs sums over locomotives, at every recorded step
        if let Some((out, fuel, res)) = tr.loco_sums.get(k).copied() {
            let es = c.energy_out_pos.value.max(c.energy_out_neg.value).max(c.energy_fuel.value.abs()).max(c.energy_res.value.abs()).max(1e3);
            for (name, a, b) in [
                ("consist.energy_out = sum(loco.energy_out)", c.energy_out.value, out),
                ("consist.energy_fuel = sum(fc.energy_fuel)", c.energy_fuel.value, fuel),
                ("consist.energy_res = sum(res.energy_out_chemical)", c.energy_res.value, res),
            ] {
                if !close(a, b, 1e-9, 1e-6, es) {
                    ctx.violate("C11", "levels", name, format!("step {k}: consist {a} vs sum over locomotives {b} (diff {:e})", a - b));
                }
            }
        }
        let sc = t.pwr_whl_out.value.abs().max(1e3);
        if !close(t.pwr_whl_out.value, c.pwr_out.value, 1e-8, 1e-6, sc) {
            ctx.violate("C11", "levels", "train wheel power = consist delivered power", format!("step {k}: train pwr_whl_out {} vs consist pwr_out {}", t.pwr_whl_out.value, c.pwr_out.value));
        }
        let es = t.energy_whl_out_pos.value.max(t.energy_whl_out_neg.value).max(1e3);
        for (name, a, b) in [
            ("energy_whl_out = consist.energy_out", t.energy_whl_out.value, c.energy_out.value),
            ("energy_whl_out_pos = consist.energy_out_pos", t.energy_whl_out_pos.value, c.energy_out_pos.value),
            ("energy_whl_out_neg = consist.energy_out_neg", t.energy_whl_out_neg.value, c.energy_out_neg.value),
        ] {
            if !close(a, b, 1e-9, 1e-6, es) {
                ctx.violate("C11", "levels", name, format!("step {k}: train {a} vs consist {b} (diff {:e})", a - b));
            }
        }
        if !close(t.energy_whl_out.value, t.energy_whl_out_pos.value - t.energy_whl_out_neg.value, 1e-9, 1e-6, es) {
            ctx.violate("C11", "levels", "energy_whl_out = pos - neg", format!("step {k}: {} vs {} - {}", t.energy_whl_out.value, t.energy_whl_out_pos.value, t.energy_whl_out_neg.value));
        }
    }
}

fn check_totals(ctx: &mut Ctx, con: &Consist, st: &TrainState, sim_days: Option<i32>, getters: (f64, f64, f64, f64, f64, f64, f64, f64)) {
    // consist vs sums over locomotives
    let es = con.state.energy_out_pos.value.max(con.state.energy_out_neg.value).max(con.state.energy_fuel.value.abs()).max(1e3);
    let sum_out: f64 = con.loco_vec.iter().map(|l| l.state.energy_out.value).sum();
    let (_, sum_fuel, sum_res) = loco_sums(con);
    for (name, a, b) in [
        ("consist.energy_out = sum(loco.energy_out)", con.state.energy_out.value, sum_out),
        ("consist.energy_fuel = sum(fc.energy_fuel)", con.state.energy_fuel.value, sum_fuel),
        ("consist.energy_res = sum(res.energy_out_chemical)", con.state.energy_res.value, sum_res),
        ("train.energy_whl_out = consist.energy_out", st.energy_whl_out.value, con.state.energy_out.value),
    ] {
        if !close(a, b, 1e-9, 1e-6, es) {
            ctx.violate("C11", "levels", name, format!("final: {a} vs {b} (diff {:e})", a - b));
        }
    }
    // trip-level outputs = totals scaled only by the documented annualisation factor
    let f = match sim_days {
        Some(d) => 365.25 / d as f64,
        None => 365.25,
    };
    let (fuel0, fuel1, res0, res1, km0, km1, mgkm0, mgkm1) = getters;
    let km = st.total_dist.value / 1000.0;
    let mgkm = st.mass_freight.value / 1000.0 * km;
    for (name, got, want) in [
        ("get_energy_fuel(false)", fuel0, sum_fuel),
        ("get_energy_fuel(true)", fuel1, sum_fuel * f),
        ("get_net_energy_res(false)", res0, sum_res),
        ("get_net_energy_res(true)", res1, sum_res * f),
        ("get_kilometers(false)", km0, km),
        ("get_kilometers(true)", km1, km * f),
        ("get_megagram_kilometers(false)", mgkm0, mgkm),
        ("get_megagram_kilometers(true)", mgkm1, mgkm * f),
    ] {
        if !close(got, want, 1e-9, 1e-9, 0.0) {
            ctx.violate("C11", "trip_outputs", name, format!("{got} vs totals x documented factor = {want} (simulation_days {sim_days:?})"));
        }
    }
}

/// C19 for train simulations: counters and histories aligned through train / brake / consist / units / components
fn check_alignment(ctx: &mut Ctx, train_i: usize, train_hist: &TrainStateHistoryVec, fb: Option<(usize, usize, Option<usize>, Vec<usize>)>, con: &Consist, want_i: usize, want_len: usize, interval: Option<usize>, after: &str) {
    let mut items: Vec<(String, usize, usize, Option<usize>, Vec<usize>)> = vec![("train".into(), train_i, train_hist.len(), interval, train_hist.i.clone())];
    if train_hist.i.len() != train_hist.energy_whl_out_neg.len() || train_hist.i.len() != train_hist.time.len() {
        ctx.violate("C19", "alignment", "history columns have one length", format!("after {after}: train history columns i {} time {} energy_whl_out_neg {}", train_hist.i.len(), train_hist.time.len(), train_hist.energy_whl_out_neg.len()));
    }
    if let Some(fb) = fb {
        items.push(("fric_brake".into(), fb.0, fb.1, fb.2, fb.3));
    }
    items.push(("consist".into(), con.state.i, con.history.len(), con.get_save_interval(), con.history.i.clone()));
    for (u, l) in con.loco_vec.iter().enumerate() {
        items.push((format!("loco{u}"), l.state.i, l.history.len(), l.get_save_interval(), l.history.i.clone()));
        match &l.loco_type {
            PowertrainType::ConventionalLoco(c) => {
                items.push((format!("loco{u}.fc"), c.fc.state.i, c.fc.history.len(), c.fc.save_interval, c.fc.history.i.clone()));
                items.push((format!("loco{u}.gen"), c.gen.state.i, c.gen.history.len(), c.gen.save_interval, c.gen.history.i.clone()));
                items.push((format!("loco{u}.edrv"), c.edrv.state.i, c.edrv.history.len(), c.edrv.save_interval, c.edrv.history.i.clone()));
            }
            PowertrainType::BatteryElectricLoco(b) => {
                items.push((format!("loco{u}.res"), b.res.state.i, b.res.history.len(), b.res.save_interval, b.res.history.i.clone()));
                items.push((format!("loco{u}.edrv"), b.edrv.state.i, b.edrv.history.len(), b.edrv.save_interval, b.edrv.history.i.clone()));
            }
            _ => {}
        }
    }
    for (name, i, len, iv, col) in &items {
        if *i != want_i {
            ctx.violate("C19", "alignment", "step counters equal", format!("after {after}: {name}.state.i = {i}, expected {want_i}"));
        }
        if *len != want_len {
            ctx.violate("C19", "alignment", "history length", format!("after {after}: {name}.history.len() = {len}, expected {want_len} (interval {interval:?})"));
        }
        if *iv != interval {
            ctx.violate("C19", "alignment", "save interval reaches every nested object", format!("after {after}: {name}.save_interval = {iv:?}, expected {interval:?}"));
        }
        if *col != items[0].4 {
            ctx.violate("C19", "alignment", "entry k refers to the same step", format!("after {after}: {name}.history.i = {:?} vs train.history.i = {:?}", &col[..col.len().min(6)], &items[0].4[..items[0].4.len().min(6)]));
        }
    }
}

#[derive(Default, Clone)]
struct Align {
    i: usize,
    len: usize,
    interval: Option<usize>,
}
impl Align {
    fn on_save(&mut self) {
        if let Some(iv) = self.interval {
            if iv > 0 && self.i % iv == 0 {
                self.len += 1;
            }
        }
    }
}

thread_local! {
    /// (friction-brake ramp-up time, friction force dropped to zero while the consist kept braking) after the
    /// latest executed step of the run on this thread - read when a panic ends the run
    static BRAKE_CTX: std::cell::Cell<(f64, bool, f64)> = const { std::cell::Cell::new((0.0, false, 0.0)) };
}

/// Did the friction brake go from applied to zero, within the last ramp-up time before step k, in a step in which
/// the controller still asked for braking (total applied force < 0, reconstructed from the recorded motion:
/// m x dv/dt + resistance)? The controller only lets the brake go in a step that asks for no braking at all, so on
/// the unchanged code this is never true; a brake that "forgets" what it was doing is - and then has to ramp up
/// from nothing while the train is still on the descent.
fn fric_dropped_while_braking(tr: &Traj, k: usize) -> bool {
    if tr.fric.len() <= k || k == 0 {
        return false;
    }
    let f_applied = |j: usize| -> f64 {
        let (a, b) = (&tr.states[j - 1], &tr.states[j]);
        let m = b.mass_static.value + b.mass_rot.value;
        let res = b.res_rolling.value + b.res_bearing.value + b.res_davis_b.value + b.res_aero.value + b.res_grade.value + b.res_curve.value;
        m * (b.speed.value - a.speed.value) / b.dt.value.max(1e-9) + res
    };
    let dt = tr.states[k].dt.value.max(1e-9);
    let window = (tr.fric_ramp_up / dt) as usize + 5;
    let lo = k.saturating_sub(window).max(1);
    for j in (lo..=k).rev() {
        if tr.fric[j] == 0.0 && tr.fric[j - 1] > 0.0 && f_applied(j) < -1e-6 * (tr.states[j].mass_static.value * 1e-3).max(1.0) {
            return true;
        }
    }
    false
}

/// for how many seconds before (and including) step k the limit in force has had the value it has at step k
fn limit_constant_for_s(tr: &Traj, k: usize) -> f64 {
    let v = tr.states[k].speed_limit.value;
    let mut t = 0.0;
    let mut j = k;
    while j > 0 && tr.states[j].speed_limit.value == v {
        t += tr.states[j].dt.value;
        j -= 1;
    }
    t
}

/// context for a panic that ends a speed-limited run (signature of finding C03-...-ramping-friction-brake)
pub fn panic_sig() -> Sig {
    let (ramp, dropped, constant) = BRAKE_CTX.with(|c| c.get());
    let mut sg = Sig::new();
    sg.insert("fric_ramp_up_s".into(), ramp.into());
    sg.insert("fric_dropped_while_braking".into(), dropped.into());
    sg.insert("limit_in_force_constant_for_s".into(), constant.into());
    sg
}

fn check_limit_run(ctx: &mut Ctx, tr: &Traj, links: &[Link], route: &[usize], case_train: &TrainSpec, r: &TrainRef) {
    let t = crate::net::TrainRefParams { length: r.length, speed_max: r.speed_max, towed_mass_static: r.towed, mass_per_brake: 0.0, axle_count: case_train.cars.iter().map(|c| c.axle_count as u32 * c.n).sum(), train_type: case_train.train_type };
    let mut cache: Option<(usize, Vec<(f64, f64, f64)>)> = None;
    for k in 1..tr.states.len() {
        ctx.event = k;
        let b = &tr.states[k];
        let v = b.speed.value;
        if !(v >= 0.0) {
            ctx.violate("C03", "limit_run", "speed never negative", format!("step {k}: speed {v}"));
        }
        if v > b.speed_limit.value * (1.0 + 1e-9) + 1e-9 {
            let mut sg = sig1("fric_ramp_up_s", tr.fric_ramp_up);
            sg.insert("fric_dropped_while_braking".into(), fric_dropped_while_braking(tr, k - 1).into());
            sg.insert("overspeed_rel".into(), ((v - b.speed_limit.value) / b.speed_limit.value.max(1e-9)).into());
            sg.insert("limit_in_force_constant_for_s".into(), limit_constant_for_s(tr, k).into());
            // the friction brake came on from fully released in this step and is at what its ramp allows
            sg.insert("fric_ramp_limited_from_released".into(), (tr.fric.len() > k && tr.fric[k - 1] == 0.0 && tr.fric[k] > 0.0).into());
            ctx.violate_sig("C03", "limit_run", "speed <= limit in force", format!("step {k}: speed {v} > limit in force {} at offset {} (friction brake {} -> {} N, ramp-up time {} s)", b.speed_limit.value, b.offset.value, tr.fric.get(k - 1).copied().unwrap_or(f64::NAN), tr.fric.get(k).copied().unwrap_or(f64::NAN), tr.fric_ramp_up), sg);
        }
        if b.speed_target.value > b.speed_limit.value * (1.0 + 1e-9) + 1e-9 {
            ctx.violate("C03", "limit_run", "target speed <= limit in force", format!("step {k}: controller aims for {} m/s, limit in force {} m/s at offset {}", b.speed_target.value, b.speed_limit.value, b.offset.value));
        }
        // posted restrictions (pointwise-minimum reference over the delivered part of the route)
        let nd = tr.delivered[k].min(route.len());
        if cache.as_ref().map(|c| c.0) != Some(nd) {
            cache = Some((nd, route_restrictions(links, &route[..nd], &t)));
        }
        let posted = ref_limit(&cache.as_ref().unwrap().1, r.speed_max, b.offset.value);
        if v > posted * (1.0 + 1e-9) + 1e-9 {
            ctx.violate("C03", "limit_run", "speed <= posted restriction at the front position", format!("step {k}: speed {v} > posted {posted} at offset {}", b.offset.value));
        }
        if b.offset.value > tr.auth_end[k] + 1e-6 {
            ctx.violate("C03", "limit_run", "train stays inside its path", format!("step {k}: offset {} beyond end of authority {}", b.offset.value, tr.auth_end[k]));
        }
        if v == 0.0 && b.offset.value >= tr.auth_end[k] - FT1000 && nd < route.len() {
            ctx.hit("probe.walk.stopped_at_end_of_authority");
        }
    }
}

fn check_set_speed(ctx: &mut Ctx, tr: &Traj, v0: f64, trace: &[(f64, f64)], t0: f64, _con0: &ConsistState, db_cap: f64) {
    let s = &tr.states;
    let mut time = t0;
    let mut e = (s[0].energy_whl_out.value, s[0].energy_whl_out_pos.value, s[0].energy_whl_out_neg.value);
    for k in 1..s.len() {
        ctx.event = k;
        let (dt, v) = trace[k - 1];
        let vp = if k == 1 { v0 } else { trace[k - 2].1 };
        time += dt;
        let (a, b) = (&s[k - 1], &s[k]);
        if !close(b.time.value, time, 1e-12, 1e-9, 0.0) || b.speed.value != v {
            ctx.violate("C14", "set_speed", "time and speed equal the trace", format!("step {k}: time {} speed {} vs trace ({time}, {v})", b.time.value, b.speed.value));
        }
        let m_c = b.mass_static.value + b.mass_rot.value;
        let accel = m_c * (v * v - vp * vp) / (2.0 * dt);
        let res_net = b.res_rolling.value + b.res_bearing.value + b.res_davis_b.value + b.res_aero.value + b.res_grade.value + b.res_curve.value;
        let pres = res_net * 0.5 * (v + vp);
        let sc = accel.abs().max(pres.abs()).max(1e3);
        if !close(b.pwr_accel.value, accel, 1e-9, 1e-6, sc) {
            ctx.violate("C14", "set_speed", "pwr_accel = rate of change of kinetic energy of the compound mass", format!("step {k}: {} vs {accel} (m_compound {m_c}, v {vp}->{v}, dt {dt})", b.pwr_accel.value));
        }
        if !close(b.pwr_res.value, pres, 1e-9, 1e-6, sc) {
            ctx.violate("C14", "set_speed", "pwr_res = total resistance x mean speed", format!("step {k}: {} vs {pres}", b.pwr_res.value));
        }
        // clips from published consist state only
        let c = &tr.con[k];
        // ramp allowance over THIS step (the trace's own dt), not over the previous one
        let pos_max = c.pwr_out_max.value.min((a.pwr_whl_out.value + c.pwr_rate_out_max.value * dt).max(0.0));
        let pos_max_stale_dt = c.pwr_out_max.value.min((a.pwr_whl_out.value + c.pwr_rate_out_max.value * a.dt.value).max(0.0));
        // the consist's dynamic-braking capability: the sum of its units' drivetrain ratings (from the units
        // themselves, not from a derived state field that may be stale)
        let neg_max = db_cap;
        let want = (accel + pres).max(-neg_max).min(pos_max);
        if !close(b.pwr_whl_out.value, want, 1e-9, 1e-6, sc) {
            let stale = close(b.pwr_whl_out.value, (accel + pres).max(-neg_max).min(pos_max_stale_dt), 1e-9, 1e-6, sc);
            ctx.violate_sig("C14", "set_speed", "wheel power = inertia + resistance, clipped only to the published limits", format!("step {k}: pwr_whl_out {} vs clip({} , -{neg_max}, {pos_max}) = {want} (dt {dt}, previous dt {}; equals the clip with the PREVIOUS step's dt: {stale})", b.pwr_whl_out.value, accel + pres, a.dt.value), sig1("ramp_allowance_uses_previous_dt", stale));
        }
        if want == pos_max && accel + pres > pos_max {
            ctx.hit("probe.set_speed.upper_clip_binds");
        }
        if want == -neg_max && accel + pres < -neg_max {
            ctx.hit("probe.set_speed.lower_clip_binds");
        }
        e.0 += b.pwr_whl_out.value * dt;
        if b.pwr_whl_out.value >= 0.0 { e.1 += b.pwr_whl_out.value * dt } else { e.2 -= b.pwr_whl_out.value * dt }
        let es = e.1.max(e.2).max(1e3);
        if !close(b.energy_whl_out.value, e.0, 1e-9, 1e-6, es) || !close(b.energy_whl_out_pos.value, e.1, 1e-9, 1e-6, es) || !close(b.energy_whl_out_neg.value, e.2, 1e-9, 1e-6, es) {
            ctx.violate("C14", "set_speed", "energies accumulate wheel power x the trace's own step", format!("step {k}: ({}, {}, {}) vs ({}, {}, {})", b.energy_whl_out.value, b.energy_whl_out_pos.value, b.energy_whl_out_neg.value, e.0, e.1, e.2));
        }
        if !close(b.dt.value, dt, 1e-12, 1e-12, 0.0) {
            ctx.violate("C14", "set_speed", "time and speed equal the trace", format!("step {k}: state.dt {} vs trace dt {dt}", b.dt.value));
        }
    }
}

// ------------------------------------------------------------------------------------------------
// executor
// ------------------------------------------------------------------------------------------------

fn loc(id: &str, l: u32) -> Location {
    Location { location_id: id.into(), offset: 0.0 * uc::M, link_idx: LinkIdx::new(l), is_front_end: false, grid_emissions_region: "x".into(), electricity_price_region: "x".into(), liquid_fuel_price_region: "x".into() }
}

pub fn make_limit_sim(case: &Case) -> anyhow::Result<SpeedLimitTrainSim> {
    let tc = build_train_config(&case.train)?;
    let con = build_consist(&case.train, case.save_interval);
    let mut lm: HashMap<String, Vec<Location>> = HashMap::new();
    lm.insert("A".into(), vec![loc("A", case.route[0])]);
    lm.insert("B".into(), vec![loc("B", *case.route.last().unwrap())]);
    let its = InitTrainState::new(Some(case.init_time * uc::S), case.init_offset.map(|o| o * uc::M), None);
    let tsb = TrainSimBuilder::new("t0".into(), tc, con, Some("A".into()), Some("B".into()), Some(its));
    let mut sim = tsb.make_speed_limit_train_sim(&lm, case.save_interval, case.sim_days, None)?;
    if let Some(t) = case.fric_ramp_up {
        sim.fric_brake.ramp_up_time = t * uc::S;
    }
    Ok(sim)
}

pub fn execute(case: &Case, ctx: &mut Ctx) {
    let links = &case.links;
    let route: Vec<usize> = case.route.iter().map(|x| *x as usize).collect();
    let lroute: Vec<LinkIdx> = case.route.iter().map(|x| LinkIdx::new(*x)).collect();
    let kind_name = match &case.kind {
        Kind::SetSpeed { shipped_walk, .. } => if *shipped_walk { "setspeed.walk" } else { "setspeed.manual" },
        Kind::LimitWalk { .. } => "limit.walk",
        Kind::LimitManual { .. } => "limit.manual",
        Kind::LimitTimed { .. } => "limit.timed",
    };
    ctx.class.push(format!("trn:{kind_name}:links{}:units{}:iv{:?}", route.len().min(8), case.train.consist.len(), case.save_interval.map(|x| x.min(3))));
    ctx.layer = "scenario-construction";
    let con0 = build_consist(&case.train, case.save_interval);
    let consist_mass = match con0.mass() {
        Ok(Some(m)) => m.value,
        Ok(None) => 0.0,
        Err(e) => {
            ctx.hit_dyn(format!("note.consist_mass_err: {}", first(&e)));
            return;
        }
    };
    let r = train_ref(&case.train, consist_mass);
    let full_monitors = case.save_interval == Some(1) && case.interval_changes.is_empty();

    match &case.kind {
        Kind::SetSpeed { v0, trace, shipped_walk } => {
            let tc = match build_train_config(&case.train) {
                Ok(t) => t,
                Err(_) => return,
            };
            let its = InitTrainState::new(Some(case.init_time * uc::S), case.init_offset.map(|o| o * uc::M), if case.init_speed_unset { None } else { Some(*v0 * uc::MPS) });
            if case.init_speed_unset {
                ctx.hit("probe.set_speed.rolling_start_with_unset_state_speed");
            }
            let tsb = TrainSimBuilder::new("t0".into(), tc, con0.clone(), None, None, Some(its));
            let mut t = case.init_time + case.trace_datum_shift;
            if case.trace_datum_shift != 0.0 {
                ctx.hit("fault.clock.trace_datum_differs_from_state_time");
            }
            let mut times = vec![t];
            let mut speeds = vec![*v0];
            for (dt, v) in trace {
                t += dt;
                times.push(t);
                speeds.push(*v);
            }
            let st = SpeedTrace::new(times, speeds, None);
            let mut sim = match tsb.make_set_speed_train_sim(links, &lroute, st, case.save_interval) {
                Ok(s) => s,
                Err(e) => {
                    ctx.hit_dyn(format!("note.build_err: {}", first(&e)));
                    return;
                }
            };
            // C20: a built train's static mass = cars (or the explicit override) + consist
            if !close(sim.state.mass_static.value, r.mass_static, 1e-9, 1e-6, 0.0) {
                ctx.violate("C20", "mass_algebra", "train static mass = cars (or override) + consist", format!("mass_static {} vs {} (towed {} + consist {consist_mass})", sim.state.mass_static.value, r.mass_static, r.towed));
            }
            let con_init = sim.loco_con.state;
            let db_cap: f64 = sim.loco_con.loco_vec.iter().map(|l| pt::edrv_rating(l)).sum();
            let mut tr = Traj { states: vec![sim.state], con: vec![sim.loco_con.state], loco_sums: vec![loco_sums(&sim.loco_con)], fric: vec![], fric_ramp_up: 0.0, auth_end: vec![0.0], delivered: vec![route.len()] };
            let path_len: f64 = route.iter().map(|l| links[*l].length.value).sum();
            ctx.layer = "train-stepping";
            let mut err = None;
            if *shipped_walk {
                if let Err(e) = sim.walk() {
                    err = Some(e);
                }
                if case.save_interval == Some(1) {
                    tr.states = sim.history.state_vec();
                    tr.con = sim.loco_con.history.state_vec();
                    tr.loco_sums = (0..tr.con.len()).map(|k| loco_sums_at(&sim.loco_con, k)).collect();
                    if tr.states.is_empty() || tr.con.len() != tr.states.len() {
                        ctx.violate("C19", "alignment", "history length", format!("after walk(): train history {} entries, consist history {}", tr.states.len(), tr.con.len()));
                        return;
                    }
                }
                let n = tr.states.len();
                tr.auth_end = vec![path_len; n];
                tr.delivered = vec![route.len(); n];
                let executed = sim.state.i - 1;
                let want_len = match case.save_interval {
                    None => 0,
                    Some(iv) => (iv == 1) as usize + (1..=executed).filter(|i| i % iv == 0).count(),
                };
                check_alignment(ctx, sim.state.i, &sim.history, None, &sim.loco_con, executed + 1, want_len, case.save_interval, "walk()");
            } else {
                let mut al = Align { i: 1, len: 0, interval: case.save_interval };
                let mut ci = 0;
                let mut ii = 0;
                for k in 0..trace.len() {
                    ctx.event = k;
                    while ci < case.crashes.len() && case.crashes[ci].0 <= k {
                        ctx.layer = "save/load";
                        match ser::crash_restore(&sim, case.crashes[ci].1, Chan::Str, ctx) {
                            Ok((s2, _)) => sim = s2,
                            Err(e) => {
                                ctx.violate("C17", "roundtrip", "yaml reload of a state reached by simulation", e);
                                return;
                            }
                        }
                        ctx.layer = "train-stepping";
                        check_alignment(ctx, sim.state.i, &sim.history, None, &sim.loco_con, al.i, al.len, al.interval, "crash/restore");
                        ci += 1;
                    }
                    while ii < case.interval_changes.len() && case.interval_changes[ii].0 <= k {
                        if case.nested_drift {
                            nested_drift(&mut sim.loco_con, case.interval_changes[ii].1);
                            ctx.hit("fault.interval.nested_drift_before_change");
                        }
                        sim.set_save_interval(case.interval_changes[ii].1);
                        al.interval = case.interval_changes[ii].1;
                        ctx.hit("fault.interval.change");
                        ii += 1;
                    }
                    match sim.step() {
                        Ok(()) => {
                            al.on_save();
                            al.i += 1;
                            tr.states.push(sim.state);
                            tr.con.push(sim.loco_con.state);
                            tr.loco_sums.push(loco_sums(&sim.loco_con));
                            tr.auth_end.push(path_len);
                            tr.delivered.push(route.len());
                            ctx.hit("stat.steps");
                            ctx.sim_s += sim.state.dt.value;
                            check_alignment(ctx, sim.state.i, &sim.history, None, &sim.loco_con, al.i, al.len, al.interval, "step");
                        }
                        Err(e) => {
                            err = Some(e);
                            // a failed step leaves counters and histories aligned
                            check_alignment(ctx, sim.state.i, &sim.history, None, &sim.loco_con, al.i, al.len, al.interval, "failed step");
                            break;
                        }
                    }
                }
            }
            if let Some(e) = &err {
                ctx.hit_dyn(format!("note.setspeed_err: {}", first(e).chars().take(70).collect::<String>()));
                ctx.hit("stat.runs_ended_with_err");
            }
            if *v0 < 0.0 {
                ctx.hit("fault.trace.negative_first_speed");
                let executed = sim.state.i.saturating_sub(1);
                if err.is_none() || executed > 0 {
                    ctx.violate("C14", "set_speed", "a trace containing a negative speed is rejected", format!("first trace sample = {v0} m/s: run {} after {executed} executed steps", if err.is_none() { "ended Ok" } else { "failed only" }));
                }
            }
            if let Some(j) = trace.iter().position(|x| x.1 < 0.0) {
                ctx.hit("fault.trace.negative_speed");
                // the step that would adopt trace entry j is step number j + 1 (state.i counts from 1)
                let executed = sim.state.i.saturating_sub(1);
                if err.is_none() || executed > j {
                    ctx.violate("C14", "set_speed", "a trace containing a negative speed is rejected", format!("trace[{j}] = {} m/s: run {} after {executed} executed steps", trace[j].1, if err.is_none() { "ended Ok" } else { "failed only" }));
                }
                // (states[0] is the initial state the case supplied, not something the run produced)
                if tr.states.iter().skip(1).any(|s| s.speed.value < 0.0) {
                    ctx.violate("C14", "set_speed", "a trace containing a negative speed is rejected", "a state with negative speed was recorded".into());
                }
            }
            for s in &tr.states {
                ctx.trace.f(s.offset.value);
                ctx.trace.f(s.pwr_whl_out.value);
                ctx.trace.f(s.energy_whl_out.value);
            }
            ctx.nontrivial = tr.states.len() >= 5;
            if *shipped_walk {
                ctx.add("stat.steps", tr.states.len().saturating_sub(1) as u64);
                ctx.sim_s += sim.state.time.value - case.init_time;
            }
            if !*shipped_walk || case.save_interval == Some(1) {
                ctx.layer = "train-stepping";
                check_set_speed(ctx, &tr, *v0, trace, case.init_time + case.trace_datum_shift, &con_init, db_cap);
                check_kinematics(ctx, &tr, links, &route, r.length, Some(*v0), case.trace_datum_shift != 0.0);
                check_resistance(ctx, &tr, links, &route, &r);
                // (the set-speed simulation keeps its path private: read it the way a user would, from a saved copy)
                if let Some(path) = serde_yaml::to_value(&sim).ok().and_then(|v| v.get("path_tpc").cloned()).and_then(|v| serde_yaml::to_string(&v).ok()).and_then(|y| <PathTpc as altrios_core::traits::SerdeAPI>::from_yaml(y).ok()) {
                    check_backward_sweep(ctx, &sim.state, &sim.train_res, &path, links, &route, &r, case.hash_seed);
                }
                check_levels(ctx, &tr);
                let _ = full_monitors;
            }
            let g = (sim.loco_con.get_energy_fuel().value, 0.0, sim.loco_con.get_net_energy_res().value, 0.0, 0.0, 0.0, 0.0, 0.0);
            let _ = g;
        }
        _ => {
            let sim = match make_limit_sim(case) {
                Ok(s) => s,
                Err(e) => {
                    ctx.hit_dyn(format!("note.build_err: {}", first(&e)));
                    return;
                }
            };
            if !close(sim.state.mass_static.value, r.mass_static, 1e-9, 1e-6, 0.0) {
                ctx.violate("C20", "mass_algebra", "train static mass = cars (or override) + consist", format!("mass_static {} vs {} (towed {} + consist {consist_mass})", sim.state.mass_static.value, r.mass_static, r.towed));
            }
            let dt = match &case.kind {
                Kind::LimitWalk { dt } | Kind::LimitManual { dt, .. } | Kind::LimitTimed { dt, .. } => *dt,
                _ => 1.0,
            };
            if let Kind::LimitTimed { .. } = &case.kind {
                if route.len() < 2 {
                    return; // walk_timed_path never extends by the last (destination) entry: nothing to walk
                }
            }
            let mut rn = Runner::new(sim, case, dt);
            rn.tspec = Some(crate::trk::TrainSpec { length: r.length, speed_max: r.speed_max, towed_mass_static: r.towed, mass_per_brake: 0.0, axle_count: case.train.cars.iter().map(|c| c.axle_count as u32 * c.n).sum(), curve_coeff: CURVE, train_type: case.train.train_type });
            let result = rn.run(ctx, case, links, &lroute);
            let arrived = rn.arrived;
            ctx.add("stat.steps", rn.k as u64);
            rn.align(ctx, "end of run");
            // the shipped loops over the same scenario must reproduce the simulator-driven run (bit-exact final state)
            if rn.terminated && !rn.handed_over && case.crashes.is_empty() && case.interval_changes.is_empty() {
                if let Ok(mut s2) = make_limit_sim(case) {
                    s2.state.dt = dt * uc::S;
                    ctx.layer = "train-stepping";
                    let r2 = match &case.kind {
                        Kind::LimitWalk { .. } => match s2.extend_path(links, &lroute) {
                            Ok(()) => Some(s2.walk()),
                            Err(e) => Some(Err(e)),
                        },
                        Kind::LimitTimed { times, .. } => {
                            let tp: Vec<LinkIdxTime> = lroute.iter().zip(times).map(|(l, t)| LinkIdxTime::new(*l, *t * uc::S)).collect();
                            Some(s2.walk_timed_path(links, &tp))
                        }
                        _ => None,
                    };
                    if let Some(r2) = r2 {
                        ctx.hit("stat.shipped_walk_compared");
                        if r2.is_ok() != result.is_ok() || s2.state != rn.sim.state || s2.loco_con.state != rn.sim.loco_con.state {
                            ctx.violate("C03", "driver", "shipped walk = simulator-driven steps (bit-exact)", format!("shipped {:?} at offset {} vs driven {:?} at offset {}", r2.as_ref().map_err(first), s2.state.offset.value, result.as_ref().map_err(first), rn.sim.state.offset.value));
                        }
                        // C19 on the shipped loop: initial state saved + one entry per executed step (interval permitting)
                        let executed = s2.state.i - 1;
                        let want_len = match case.save_interval {
                            None => 0,
                            Some(iv) => (iv == 1) as usize + (1..=executed).filter(|i| i % iv == 0).count(),
                        };
                        if r2.is_ok() {
                            check_alignment(ctx, s2.state.i, &s2.history, Some((s2.fric_brake.state.i, s2.fric_brake.history.len(), s2.fric_brake.save_interval, s2.fric_brake.history.i.clone())), &s2.loco_con, executed + 1, want_len, case.save_interval, "shipped walk");
                        }
                        // the same run picked up part-way: some steps by hand,
                        // then the shipped walk() finishes it. walk() saves the state it starts from once more - at
                        // EVERY level, so histories stay aligned row by row - and the run ends where the uninterrupted one did.
                        if let (Kind::LimitWalk { .. }, true) = (&case.kind, r2.is_ok()) {
                            if let Ok(mut s3) = make_limit_sim(case) {
                                s3.state.dt = dt * uc::S;
                                if s3.extend_path(links, &lroute).is_ok() {
                                    let k = 1 + (case.hash_seed % 40) as usize;
                                    let stepped = (0..k).all(|_| s3.step().is_ok());
                                    if stepped && executed > k && s3.walk().is_ok() {
                                        ctx.hit("fault.resume.walk_after_manual_steps");
                                        let executed3 = s3.state.i - 1;
                                        let want3 = match case.save_interval {
                                            None => 0,
                                            // (steps by hand save no initial state; walk() saves the state it starts from, labelled with
                                            // the index of the step about to be taken, which that step then saves again)
                                            Some(iv) => (1..=executed3).filter(|i| i % iv == 0).count() + ((k + 1) % iv == 0) as usize,
                                        };
                                        check_alignment(ctx, s3.state.i, &s3.history, Some((s3.fric_brake.state.i, s3.fric_brake.history.len(), s3.fric_brake.save_interval, s3.fric_brake.history.i.clone())), &s3.loco_con, executed3 + 1, want3, case.save_interval, "shipped walk resumed after manual steps");
                                        // C11 on every saved row: train and consist report the same cumulative wheel energy
                                        let (te, ce) = (&s3.history.energy_whl_out, &s3.loco_con.history.energy_out);
                                        for r in 0..te.len().min(ce.len()) {
                                            if !close(te[r].value, ce[r].value, 1e-9, 1e-6, te[r].value.abs().max(1e3)) {
                                                ctx.violate("C11", "levels", "energy_whl_out = consist.energy_out", format!("run resumed by walk() after {k} manual steps: saved row {r}: train {} vs consist {}", te[r].value, ce[r].value));
                                                break;
                                            }
                                        }
                                        if s3.state != s2.state {
                                            ctx.violate("C03", "driver", "shipped walk = simulator-driven steps (bit-exact)", format!("walk() resumed after {k} manual steps ends at offset {} time {}, uninterrupted walk() at offset {} time {}", s3.state.offset.value, s3.state.time.value, s2.state.offset.value, s2.state.time.value));
                                        }
                                    }
                                }
                            }
                        }
                    }
                }
            }
            let sim = &rn.sim;
            let tr = &rn.tr;
            ctx.layer = "train-stepping";
            match &result {
                Ok(()) => {
                    if arrived {
                        let end = sim.offset_end().value;
                        let off = sim.state.offset.value;
                        if !(sim.state.speed.value == 0.0 && off >= end - FT1000 - 1e-6 && off <= end + 1e-6) {
                            ctx.violate("C03", "limit_run", "Ok => at rest inside the stopping window", format!("ended at offset {off} (end {end}) with speed {}", sim.state.speed.value));
                        }
                        ctx.hit("stat.runs_arrived");
                    }
                }
                Err(e) => {
                    ctx.hit("stat.runs_ended_with_err");
                    ctx.hit_dyn(format!("note.limit_err: {} [step {}]", first(e).chars().take(60).collect::<String>(), if rn.k == 0 { "0".to_string() } else { ">0".to_string() }));
                    if !descriptive(e) {
                        ctx.violate("C03", "limit_run", "Err names a cause", format!("error text: {:?}", format!("{e:#}").chars().take(200).collect::<String>()));
                    }
                    let n_deliv = tr.delivered.last().copied().unwrap_or(route.len()).min(route.len());
                    if format!("{e:#}").contains("sufficient power to move") {
                        ctx.hit("probe.walk.ended_with_stall_error");
                    }
                    if let Some(why) = spurious_stall(sim, e, links, &route[..n_deliv], &r) {
                        ctx.violate("C03", "limit_run", "a reported stall is a stall", format!("run ended with {:?} after {} steps, but: {why}", first(e).chars().take(80).collect::<String>(), rn.k));
                    }
                }
            }
            for s in &tr.states {
                ctx.trace.f(s.offset.value);
                ctx.trace.f(s.speed.value);
                ctx.trace.f(s.energy_whl_out.value);
            }
            ctx.nontrivial = tr.states.len() >= 20;
            if tr.states.len() > 1 {
                check_limit_run(ctx, tr, links, &route, &case.train, &r);
                check_kinematics(ctx, tr, links, &route, r.length, None, false);
                check_resistance(ctx, tr, links, &route, &r);
                let n_deliv = tr.delivered.last().copied().unwrap_or(route.len()).min(route.len());
                check_backward_sweep(ctx, &sim.state, &sim.train_res, &sim.path_tpc, links, &route[..n_deliv], &r, case.hash_seed);
                check_levels(ctx, tr);
            }
            if result.is_ok() {
                // (after a failed step the partially updated object is not promised to be consistent)
                let getters = (
                    sim.get_energy_fuel(false).value,
                    sim.get_energy_fuel(true).value,
                    sim.get_net_energy_res(false).value,
                    sim.get_net_energy_res(true).value,
                    sim.get_kilometers(false),
                    sim.get_kilometers(true),
                    sim.get_megagram_kilometers(false),
                    sim.get_megagram_kilometers(true),
                );
                check_totals(ctx, &sim.loco_con, &sim.state, case.sim_days, getters);
            }
        }
    }
}

/// Simulator-driven speed-limited run: owns the step loop, the authority channel and the fault points.
struct Runner {
    sim: SpeedLimitTrainSim,
    tr: Traj,
    al: Align,
    dt: f64,
    k: usize,
    done: usize,
    ci: usize,
    ii: usize,
    arrived: bool,
    /// the run ended by itself (arrival or error) inside the step budget
    terminated: bool,
    budget: usize,
    /// consecutive steps spent at rest outside the stopping window (authority ahead, not moving)
    rest_outside: usize,
    stuck: bool,
    /// inside the final walk (after the last authority has been delivered)
    final_walk: bool,
    /// the final rest state was handed to the shipped loop (no step-for-step comparison with a fresh shipped run)
    handed_over: bool,
    /// the train as the track world's speed-profile reference sees it (from the car list, not from the
    /// simulation's own TrainParams): the profile of the train's own path is judged after every extension
    tspec: Option<crate::trk::TrainSpec>,
}

impl Runner {
    fn new(mut sim: SpeedLimitTrainSim, case: &Case, dt: f64) -> Self {
        sim.state.dt = dt * uc::S;
        let tr = Traj { states: vec![sim.state], con: vec![sim.loco_con.state], loco_sums: vec![loco_sums(&sim.loco_con)], fric: vec![sim.fric_brake.state.force.value], fric_ramp_up: sim.fric_brake.ramp_up_time.value, auth_end: vec![0.0], delivered: vec![0] };
        BRAKE_CTX.with(|c| c.set((tr.fric_ramp_up, false, 0.0)));
        Runner { sim, tr, al: Align { i: 1, len: 0, interval: case.save_interval }, dt, k: 0, done: 0, ci: 0, ii: 0, arrived: false, terminated: false, budget: 60_000, rest_outside: 0, stuck: false, final_walk: false, handed_over: false, tspec: None }
    }
    fn align(&self, ctx: &mut Ctx, after: &str) {
        let s = &self.sim;
        check_alignment(ctx, s.state.i, &s.history, Some((s.fric_brake.state.i, s.fric_brake.history.len(), s.fric_brake.save_interval, s.fric_brake.history.i.clone())), &s.loco_con, self.al.i, self.al.len, self.al.interval, after);
    }
    fn go_on(&self) -> bool {
        let (off, end, v) = (self.sim.state.offset.value, self.sim.offset_end().value, self.sim.state.speed.value);
        off < end - FT1000 || (off < end && v != 0.0)
    }
    fn extend(&mut self, ctx: &mut Ctx, links: &[Link], lroute: &[LinkIdx], k: usize) -> anyhow::Result<()> {
        ctx.layer = "path.extend";
        let kk = k.min(lroute.len() - self.done);
        self.sim.extend_path(links, &lroute[self.done..self.done + kk])?;
        self.done += kk;
        if let Some(t) = &self.tspec {
            let rd: Vec<usize> = lroute[..self.done].iter().map(|l| l.idx()).collect();
            crate::trk::check_speeds(ctx, &self.sim.path_tpc, links, &rd, t, "extend_path of a train simulation", false);
            ctx.hit("stat.train_path_profiles_checked");
        }
        if std::env::var("ALTSIM_TRACE_STEPS").is_ok() {
            if let Ok(v) = serde_json::to_value(&self.sim.braking_points) {
                eprintln!("speed points: {:?}", self.sim.path_tpc.speed_points().iter().map(|p| (p.offset.value, p.speed_limit.value)).collect::<Vec<_>>());
                if let Some(pts) = v["points"].as_array() {
                    for p in pts {
                        eprintln!("  bp off {:.2} lim {:.4} tgt {:.4}", p["offset"].as_f64().unwrap_or(f64::NAN), p["speed_limit"].as_f64().unwrap_or(f64::NAN), p["speed_target"].as_f64().unwrap_or(f64::NAN));
                    }
                }
            }
        }
        Ok(())
    }
    /// faults between steps, then one step; Ok(false) = budget exhausted
    fn step(&mut self, ctx: &mut Ctx, case: &Case) -> anyhow::Result<bool> {
        if self.k >= self.budget {
            return Ok(false);
        }
        ctx.event = self.k;
        while self.ci < case.crashes.len() && case.crashes[self.ci].0 <= self.k {
            ctx.layer = "save/load";
            match ser::crash_restore(&self.sim, case.crashes[self.ci].1, Chan::Str, ctx) {
                Ok((s2, _)) => self.sim = s2,
                Err(e) => {
                    ctx.violate("C17", "roundtrip", "yaml reload of a state reached by simulation", e.clone());
                    anyhow::bail!("reload failed: {e}");
                }
            }
            self.align(ctx, "crash/restore");
            self.ci += 1;
        }
        while self.ii < case.interval_changes.len() && case.interval_changes[self.ii].0 <= self.k {
            if case.nested_drift {
                nested_drift(&mut self.sim.loco_con, case.interval_changes[self.ii].1);
                ctx.hit("fault.interval.nested_drift_before_change");
            }
            self.sim.set_save_interval(case.interval_changes[self.ii].1);
            self.al.interval = case.interval_changes[self.ii].1;
            ctx.hit("fault.interval.change");
            self.ii += 1;
        }
        ctx.layer = "train-stepping";
        let end = self.sim.offset_end().value;
        match self.sim.step() {
            Ok(()) => {
                self.al.on_save();
                self.al.i += 1;
                self.tr.states.push(self.sim.state);
                self.tr.con.push(self.sim.loco_con.state);
                self.tr.loco_sums.push(loco_sums(&self.sim.loco_con));
                self.tr.fric.push(self.sim.fric_brake.state.force.value);
                BRAKE_CTX.with(|c| c.set((self.tr.fric_ramp_up, fric_dropped_while_braking(&self.tr, self.tr.states.len() - 1), limit_constant_for_s(&self.tr, self.tr.states.len() - 1))));
                self.tr.auth_end.push(end);
                self.tr.delivered.push(self.done);
                ctx.sim_s += self.dt;
                if std::env::var("ALTSIM_TRACE_STEPS").is_ok() {
                    let st = &self.sim.state;
                    eprintln!("k {} t {:.1} off {:.3} v {:.5} lim {:.4} tgt {:.4} pwr {:.0} fb {:.0} res {:.0}", self.k, st.time.value, st.offset.value, st.speed.value, st.speed_limit.value, st.speed_target.value, st.pwr_whl_out.value, self.sim.fric_brake.state.force.value, st.res_net().value);
                }
                if self.k % 64 == 0 {
                    self.align(ctx, "step");
                }
                self.k += 1;
                // bounded progress: a train standing still with free authority ahead (outside the stopping window)
                // must start moving again; the shipped walk() would loop forever here
                if self.sim.state.speed.value == 0.0 && self.go_on() {
                    self.rest_outside += 1;
                    if self.rest_outside > 1000 && self.ci >= case.crashes.len() && self.final_walk {
                        let st = &self.sim.state;
                        let end = self.sim.offset_end().value;
                        let mut sg = sig1("at_rest", true);
                        sg.insert("speed_target_zero".into(), (st.speed_target.value == 0.0).into());
                        sg.insert("dist_to_end_m".into(), (end - st.offset.value).into());
                        sg.insert("short_of_window_by_m".into(), (end - FT1000 - st.offset.value).into());
                        ctx.violate_sig("C03", "limit_run", "comes to rest inside the stopping window and walk terminates", format!("at rest for {} steps at offset {} with {} m of authority ahead (stopping window starts at {}): the controller's target speed is {} m/s, the shipped walk() never returns", self.rest_outside, st.offset.value, end - st.offset.value, end - FT1000, st.speed_target.value), sg);
                        self.stuck = true;
                        return Ok(false);
                    }
                } else {
                    self.rest_outside = 0;
                }
                Ok(true)
            }
            Err(e) => {
                self.align(ctx, "failed step");
                Err(e)
            }
        }
    }
    /// shipped stopping rule with the bounded-liveness oracle: once the last authority has been delivered and
    /// the last fault has fired the train is at rest in the stopping window within N steps
    fn walk_internal(&mut self, ctx: &mut Ctx, case: &Case) -> anyhow::Result<()> {
        let remaining = (self.sim.offset_end().value - self.sim.state.offset.value).max(0.0);
        let bound = 4 * remaining as usize + 3000;
        let mut n = 0usize;
        self.final_walk = true;
        // the absolute step budget must never bind before the distance-scaled bound below does (a heavy train
        // crawling at 0.6 m/s over 40 km is slow, not stuck)
        self.budget = self.budget.max(self.k + bound + 1000);
        while self.go_on() {
            // At rest for 900 steps with a zero controller target, outside the stopping window, nothing left to deliver
            // and no fault pending: as final as a state can be (the target depends on position and speed only). What
            // the shipped loop makes of it is the verdict: a descriptive error, or - if it does get the train moving -
            // an arrival inside the window. It used to spin for ever here: a regression shows as a hang, which the
            // watchdog turns into a violation.
            if self.rest_outside > 900 && self.sim.state.speed_target.value == 0.0 && self.ci >= case.crashes.len() && self.ii >= case.interval_changes.len() {
                ctx.hit("probe.walk.at_rest_short_of_window_with_zero_target");
                self.handed_over = true;
                let mut probe = self.sim.clone();
                return match probe.walk() {
                    Err(e) => {
                        self.terminated = true;
                        Err(e)
                    }
                    Ok(()) => {
                        let (off, end, v) = (probe.state.offset.value, probe.offset_end().value, probe.state.speed.value);
                        if !(v == 0.0 && off >= end - FT1000 - 1e-6 && off <= end + 1e-6) {
                            ctx.violate("C03", "limit_run", "Ok => at rest inside the stopping window", format!("shipped walk() returned Ok at offset {off} with speed {v} (stopping window [{}, {end}])", end - FT1000));
                        }
                        self.sim = probe;
                        self.arrived = true;
                        self.terminated = true;
                        Ok(())
                    }
                };
            }
            if !self.step(ctx, case)? {
                if self.stuck {
                    return Ok(());
                }
                ctx.violate("C03", "limit_run", "arrives within a bounded number of steps after the last authority", format!("step budget exhausted at offset {} (end {}), speed {}", self.sim.state.offset.value, self.sim.offset_end().value, self.sim.state.speed.value));
                return Ok(());
            }
            n += 1;
            if n > bound && self.ci >= case.crashes.len() {
                ctx.violate("C03", "limit_run", "arrives within a bounded number of steps after the last authority", format!("still running {n} steps after the last extension, which left {remaining:.0} m to go (offset {}, end {}, speed {})", self.sim.state.offset.value, self.sim.offset_end().value, self.sim.state.speed.value));
                return Ok(());
            }
        }
        self.arrived = true;
        self.terminated = true;
        Ok(())
    }
    fn run(&mut self, ctx: &mut Ctx, case: &Case, links: &[Link], lroute: &[LinkIdx]) -> anyhow::Result<()> {
        let r = self.run_inner(ctx, case, links, lroute);
        if r.is_err() {
            self.terminated = true;
        }
        r
    }
    fn run_inner(&mut self, ctx: &mut Ctx, case: &Case, links: &[Link], lroute: &[LinkIdx]) -> anyhow::Result<()> {
        match &case.kind {
            Kind::LimitWalk { .. } => {
                ctx.layer = "scenario-construction";
                self.extend(ctx, links, lroute, lroute.len())?;
                self.walk_internal(ctx, case)
            }
            Kind::LimitTimed { times, .. } => {
                // the protocol of walk_timed_path, step for step
                let n = lroute.len();
                let mut idx_prev = 0;
                while idx_prev != n - 1 {
                    let mut idx_next = idx_prev + 1;
                    while idx_next + 1 < n - 1 && times[idx_next] < self.sim.state.time.value {
                        idx_next += 1;
                    }
                    let time_extend = times[idx_next - 1];
                    self.extend(ctx, links, lroute, idx_next - idx_prev)?;
                    if idx_next - idx_prev > 1 {
                        ctx.hit("fault.authority.batch");
                    }
                    idx_prev = idx_next;
                    while self.sim.state.time.value < time_extend {
                        if !self.step(ctx, case)? {
                            ctx.hit("stat.budget_exhausted_waiting_for_authority");
                            return Ok(());
                        }
                    }
                }
                self.walk_internal(ctx, case)
            }
            Kind::LimitManual { first: f0, auths, .. } => {
                ctx.layer = "scenario-construction";
                self.extend(ctx, links, lroute, (*f0).clamp(1, lroute.len()))?;
                let mut stopped_for = 0u32;
                for a in auths {
                    if self.done >= lroute.len() {
                        break;
                    }
                    // run until this delivery is due
                    loop {
                        let (off, end, v) = (self.sim.state.offset.value, self.sim.offset_end().value, self.sim.state.speed.value);
                        // (a train standing short of the end of its authority for two minutes gets the next delivery
                        // anyway - a dispatcher delivers by the clock, not by where the train chose to stop)
                        let due = match a.when {
                            When::Dist(d) => end - off <= d,
                            When::StoppedFor(n) => !self.go_on() && stopped_for >= n,
                        } || self.rest_outside as f64 * self.dt > 120.0 || (!self.go_on() && stopped_for as f64 * self.dt > 120.0);
                        if due {
                            break;
                        }
                        if !self.go_on() {
                            stopped_for += 1;
                            if v == 0.0 {
                                ctx.hit("probe.walk.waiting_at_end_of_authority");
                            }
                        }
                        if !self.step(ctx, case)? {
                            ctx.hit("stat.budget_exhausted_waiting_for_authority");
                            return Ok(());
                        }
                    }
                    if a.empty_first {
                        ctx.layer = "path.extend";
                        self.sim.extend_path(links, &lroute[0..0])?;
                        ctx.hit("fault.authority.empty_extension");
                    }
                    self.extend(ctx, links, lroute, a.k)?;
                    match a.when {
                        When::StoppedFor(_) => ctx.hit("fault.authority.late"),
                        When::Dist(d) if d >= 3000.0 => ctx.hit("fault.authority.early"),
                        _ => ctx.hit("fault.authority.just_in_time"),
                    }
                    if a.k > 1 {
                        ctx.hit("fault.authority.batch");
                    }
                    stopped_for = 0;
                }
                if self.done < lroute.len() {
                    self.extend(ctx, links, lroute, lroute.len() - self.done)?;
                }
                self.walk_internal(ctx, case)
            }
            _ => Ok(()),
        }
    }
}

pub fn shrink(case: &Case) -> Vec<Case> {
    let mut out = vec![];
    for k in 0..case.crashes.len() {
        let mut c = case.clone();
        c.crashes.remove(k);
        out.push(c);
    }
    if !case.interval_changes.is_empty() {
        let mut c = case.clone();
        c.interval_changes.clear();
        out.push(c);
    }
    // fewer units, fewer car types
    if case.train.consist.len() > 1 {
        for k in 0..case.train.consist.len() {
            let mut c = case.clone();
            c.train.consist.remove(k);
            out.push(c);
        }
    }
    for k in 0..case.train.consist.len() {
        if !matches!(case.train.consist[k], ConUnit::Conv) {
            let mut c = case.clone();
            c.train.consist[k] = ConUnit::Conv;
            out.push(c);
        }
    }
    if case.train.cars.len() > 1 {
        for k in 0..case.train.cars.len() {
            let mut c = case.clone();
            c.train.cars.remove(k);
            if c.train.cars.iter().any(|x| x.n > 0) {
                out.push(c);
            }
        }
    }
    for k in 0..case.train.cars.len() {
        if case.train.cars[k].n > 8 {
            let mut c = case.clone();
            c.train.cars[k].n /= 2;
            out.push(c);
        }
    }
    if case.train.length_override.is_some() || case.train.mass_override.is_some() || case.train.use_cd_area_vec {
        let mut c = case.clone();
        c.train.length_override = None;
        c.train.mass_override = None;
        c.train.use_cd_area_vec = false;
        out.push(c);
    }
    // shorter trace / simpler schedule
    match &case.kind {
        Kind::SetSpeed { v0, trace, shipped_walk } => {
            if trace.len() > 2 {
                out.push(Case { kind: Kind::SetSpeed { v0: *v0, trace: trace[..trace.len() / 2].to_vec(), shipped_walk: *shipped_walk }, ..case.clone() });
                out.push(Case { kind: Kind::SetSpeed { v0: *v0, trace: trace[..trace.len() - 1].to_vec(), shipped_walk: *shipped_walk }, ..case.clone() });
            }
        }
        Kind::LimitManual { dt, first, auths } => {
            if !auths.is_empty() {
                out.push(Case { kind: Kind::LimitWalk { dt: *dt }, ..case.clone() });
                let mut a2 = auths.clone();
                for a in a2.iter_mut() {
                    a.empty_first = false;
                    a.when = When::Dist(1e9);
                }
                if a2 != *auths {
                    out.push(Case { kind: Kind::LimitManual { dt: *dt, first: *first, auths: a2 }, ..case.clone() });
                }
            }
            if *dt != 1.0 {
                out.push(Case { kind: Kind::LimitManual { dt: 1.0, first: *first, auths: auths.clone() }, ..case.clone() });
            }
        }
        Kind::LimitTimed { dt, .. } => out.push(Case { kind: Kind::LimitWalk { dt: *dt }, ..case.clone() }),
        _ => {}
    }
    // shorter route (from the end)
    if case.route.len() > 1 {
        let mut c = case.clone();
        c.route.pop();
        match &mut c.kind {
            Kind::LimitTimed { times, .. } => {
                times.pop();
            }
            Kind::LimitManual { first, auths, .. } => {
                let total: usize = *first + auths.iter().map(|a| a.k).sum::<usize>();
                if total > c.route.len() {
                    if let Some(a) = auths.last_mut() {
                        if a.k > 1 {
                            a.k -= 1;
                        } else {
                            auths.pop();
                        }
                    } else if *first > 1 {
                        *first -= 1;
                    }
                }
            }
            _ => {}
        }
        out.push(c);
    }
    // fewer restrictions / geometry points on route links
    for li in case.route.iter().map(|x| *x as usize) {
        let l = &case.links[li];
        if let Some(ss) = &l.speed_set {
            for k in 0..ss.speed_limits.len() {
                if ss.speed_limits.len() > 1 {
                    let mut c = case.clone();
                    c.links[li].speed_set.as_mut().unwrap().speed_limits.remove(k);
                    out.push(c);
                }
            }
        }
        if l.elevs.len() > 2 {
            let mut c = case.clone();
            c.links[li].elevs.remove(1);
            out.push(c);
        }
        if !l.headings.is_empty() {
            let mut c = case.clone();
            c.links[li].headings.clear();
            out.push(c);
        }
    }
    if case.init_time != 0.0 {
        let mut c = case.clone();
        c.init_time = 0.0;
        out.push(c);
    }
    if case.init_offset.is_some() {
        let mut c = case.clone();
        c.init_offset = None;
        out.push(c);
    }
    if case.init_speed_unset {
        let mut c = case.clone();
        c.init_speed_unset = false;
        out.push(c);
    }
    if case.nested_drift {
        let mut c = case.clone();
        c.nested_drift = false;
        out.push(c);
    }
    if case.fric_ramp_up.is_some() {
        let mut c = case.clone();
        c.fric_ramp_up = None;
        out.push(c);
    }
    out
}
