//! World `mass` (C20): seeded sequences of mass / adhesion / maximum-force updates on components,
//! locomotives and consists, interleaved with crash/restore (a state the setters accepted must reload,
//! `init()` re-checks consistency) and with updates that must be rejected; a small reference model of the
//! algebra says what every accepted update must produce under its side-effect option, and a rejected
//! update must leave every getter as it was (failure atomicity - the statement says "rejected").

use crate::core::*;
use crate::rng::Rng;
use crate::ser::{self, Chan, Fmt};
use altrios_core::consist::locomotive::locomotive_model::PowertrainType;
use altrios_core::consist::locomotive::powertrain::fuel_converter::FuelConverter;
use altrios_core::consist::locomotive::powertrain::generator::Generator;
use altrios_core::consist::locomotive::powertrain::reversible_energy_storage::ReversibleEnergyStorage;
use altrios_core::consist::locomotive::{ForceMaxSideEffect, MuSideEffect};
use altrios_core::prelude::*;
use altrios_core::traits::{Mass, MassSideEffect, SerdeAPI};
use altrios_core::consist::PowerDistributionControlType;
use altrios_core::si;
use altrios_core::uc;
use serde::{Deserialize, Serialize};

/// the library's documented gravity constant (uc::ACC_GRAV, WGS-84 at the geographic centre of the contiguous US)
const G: f64 = 9.801_548_494_963_14;

#[derive(Serialize, Deserialize, Clone, Debug, PartialEq)]
pub enum Target {
    Fc,
    Gen,
    Res,
    /// locomotive; `derived` = file also carries baseline, ballast and component masses (redundant mass data)
    Loco { bel: bool, derived: bool },
    Consist { n: usize },
}

#[derive(Serialize, Deserialize, Clone, Debug, PartialEq)]
pub enum Op {
    /// side: 0 None, 1 Extensive, 2 Intensive
    SetMass { unit: usize, new: Option<f64>, side: u8 },
    /// side: 0 Mass, 1 ForceMax, 2 SetMassToNone
    SetMu { unit: usize, mu: f64, side: u8 },
    /// side: 0 Mass, 1 UpdateMu, 2 SetMuToNone, 3 SetMassToNone, 4 SetMassAndMuToNone
    SetForceMax { unit: usize, f: f64, side: u8 },
    Crash { fmt: Fmt },
    /// locomotives carrying redundant mass data: the mass of a component INSIDE the locomotive (battery of a
    /// battery-electric unit, engine of a conventional one) changes by `delta` kg through the component's own
    /// accepted setter - the locomotive's derived mass moves with it, and until the locomotive is re-synchronised
    /// its stored mass / force_max no longer agree with it
    InnerCompMass { unit: usize, delta: f64 },
}

#[derive(Serialize, Deserialize, Clone, Debug)]
pub struct Case {
    pub target: Target,
    /// initial (mass, specific power or energy) of the component(s), initial (mass, mu) of the locomotive(s)
    pub init_mass: Option<f64>,
    pub init_spec: Option<f64>,
    pub init_mu: Option<f64>,
    pub ops: Vec<Op>,
    pub hash_seed: u64,
}

pub fn generate(rng: &mut Rng, _focus: &str, _thorough: bool) -> Case {
    let target = match rng.below(8) {
        0 => Target::Fc,
        1 => Target::Gen,
        2 => Target::Res,
        3 | 4 => Target::Loco { bel: rng.chance(0.4), derived: false },
        5 => Target::Loco { bel: rng.chance(0.4), derived: true },
        _ => Target::Consist { n: rng.usize(1, 4) },
    };
    let masses = [1000.0, 2000.0, 5000.0, 12_500.0, 195_000.0, 100_000.0];
    let is_comp = matches!(target, Target::Fc | Target::Gen | Target::Res);
    let init_mass = if rng.chance(0.35) { None } else { Some(*rng.pick(&masses)) };
    // components: specific power / energy; locomotives: a deliberate error factor on force_max in the file
    let init_spec = if !is_comp {
        if matches!(target, Target::Loco { .. }) && rng.chance(0.12) { Some(1.2) } else { None }
    } else if rng.chance(0.4) {
        None
    } else {
        Some(*rng.pick(&[250.0, 500.0, 1000.0, 4000.0]))
    };
    let init_mu = if is_comp || rng.chance(0.4) { None } else { Some(*rng.pick(&[0.25, 0.3, 0.35])) };
    let n_units = match target {
        Target::Consist { n } => n,
        _ => 1,
    };
    let n_ops = rng.usize(1, 12);
    let mut ops = vec![];
    for _ in 0..n_ops {
        let unit = rng.usize(0, n_units - 1);
        let op = if is_comp {
            match rng.below(8) {
                0 => Op::Crash { fmt: *rng.pick(&[Fmt::Yaml, Fmt::Json]) },
                _ => Op::SetMass { unit, new: if rng.chance(0.2) { None } else { Some(*rng.pick(&masses)) }, side: rng.below(3) as u8 },
            }
        } else {
            match rng.below(10) {
                0 => Op::Crash { fmt: *rng.pick(&[Fmt::Yaml, Fmt::Json]) },
                1..=3 => Op::SetMass { unit, new: if rng.chance(0.25) { None } else { Some(*rng.pick(&masses)) }, side: if rng.chance(0.85) { 0 } else { rng.usize(1, 2) as u8 } },
                4..=6 => Op::SetMu { unit, mu: *rng.pick(&[0.2, 0.25, 0.3, 0.35, 0.4]), side: rng.below(3) as u8 },
                _ => Op::SetForceMax { unit, f: *rng.pick(&[300e3, 500e3, 667.2e3, 800e3]), side: rng.below(5) as u8 },
            }
        };
        ops.push(op);
    }
    // a component inside the locomotive changes, then (mostly) the locomotive is re-synchronised
    if matches!(target, Target::Loco { derived: true, .. }) && rng.chance(0.5) {
        let at = rng.usize(0, ops.len());
        ops.insert(at, Op::InnerCompMass { unit: 0, delta: *rng.pick(&[-4000.0, -1500.0, 2500.0, 7500.0]) });
        if rng.chance(0.75) {
            let new = if rng.chance(0.6) { None } else { Some(*rng.pick(&masses)) };
            ops.insert((at + 1 + rng.usize(0, 1)).min(ops.len()), Op::SetMass { unit: 0, new, side: 0 });
        }
    }
    Case { target, init_mass, init_spec, init_mu, ops, hash_seed: rng.next() }
}

// ------------------------------------------------------------------------------------------------
// reference models
// ------------------------------------------------------------------------------------------------

fn almost_eq(a: f64, b: f64) -> bool {
    ((b - a) / (a + b)).abs() < 1e-8 || (b - a).abs() < 1e-8
}

#[derive(Clone, Debug, PartialEq)]
struct CompModel {
    mass: Option<f64>,
    spec: Option<f64>,
    /// rated power (fc, gen) or energy capacity (res)
    p: f64,
}
impl CompModel {
    fn derived(&self) -> Option<f64> {
        self.spec.map(|s| self.p / s)
    }
    /// Ok(mass) or Err when stored and derived mass disagree
    fn mass_get(&self) -> Result<Option<f64>, ()> {
        if let (Some(d), Some(m)) = (self.derived(), self.mass) {
            if !almost_eq(m, d) {
                return Err(());
            }
        }
        Ok(self.mass)
    }
    fn set_mass(&mut self, new: Option<f64>, side: u8) {
        match (self.derived(), new) {
            (Some(d), Some(m)) => {
                if d != m {
                    match side {
                        1 => self.p = self.spec.unwrap() * m,
                        2 => self.spec = Some(self.p / m),
                        _ => self.spec = None,
                    }
                }
            }
            (_, None) => self.spec = None,
            _ => {}
        }
        self.mass = new;
    }
}

#[derive(Clone, Debug, PartialEq)]
enum Derived {
    None,
    Some(f64),
    /// baseline / ballast given but a component mass is missing: every mass lookup fails
    Broken,
}

#[derive(Clone, Debug, PartialEq)]
struct LocoModel {
    mass: Option<f64>,
    mu: Option<f64>,
    fmax: f64,
    derived: Derived,
}
impl LocoModel {
    fn mass_get(&self) -> Result<Option<f64>, ()> {
        match (&self.derived, self.mass) {
            (Derived::Broken, _) => Err(()),
            (Derived::Some(d), Some(m)) => {
                if almost_eq(m, *d) {
                    Ok(Some(m))
                } else {
                    Err(())
                }
            }
            (Derived::None, None) => Ok(None),
            (Derived::Some(d), None) => Ok(Some(*d)),
            (Derived::None, Some(m)) => Ok(Some(m)),
        }
    }
    /// "when both are known": the *reported* mass counts, i.e. also one derived from the constituent fields
    fn force_consistent(&self) -> bool {
        match (self.mu, self.mass_get()) {
            (Some(mu), Ok(Some(m))) => almost_eq(self.fmax, mu * m * G),
            _ => true,
        }
    }
    /// the ...ToNone options make the mass unknown: the constituent fields go as well
    fn mass_to_none(&mut self) {
        self.mass = None;
        self.derived = Derived::None;
    }
    /// None = the update must be rejected (and nothing may change)
    fn set_mass(&self, new: Option<f64>, side: u8) -> Option<LocoModel> {
        if side != 0 {
            return None;
        }
        let mut m = self.clone();
        if m.derived == Derived::Broken {
            return None;
        }
        let mass = match new {
            Some(x) => {
                if let Derived::Some(d) = m.derived {
                    if d != x {
                        // constituent mass fields (baseline, ballast, components) are set to None to match
                        m.derived = Derived::None;
                    }
                }
                x
            }
            None => match m.derived {
                Derived::Some(d) => d,
                _ => return None,
            },
        };
        // "Updating force_max to correspond to new mass" needs the adhesion coefficient
        let mu = m.mu?;
        if m.derived == Derived::Broken {
            return None;
        }
        m.mass = Some(mass);
        m.fmax = mu * mass * G;
        Some(m)
    }
    fn set_mu(&self, mu: f64, side: u8) -> Option<LocoModel> {
        let mut m = self.clone();
        match side {
            0 => {
                // update mass, force unchanged
                m.mu = Some(mu);
                let new_mass = m.fmax / (mu * G);
                m.set_mass(Some(new_mass), 0)
            }
            1 => {
                let mass = m.mass_get().ok()??;
                m.mu = Some(mu);
                m.fmax = mu * G * mass;
                Some(m)
            }
            _ => {
                m.mu = Some(mu);
                m.mass_to_none();
                Some(m)
            }
        }
    }
    fn set_force_max(&self, f: f64, side: u8) -> Option<LocoModel> {
        let mut m = self.clone();
        match side {
            0 => {
                let mu = m.mu?;
                m.fmax = f;
                let mut r = m.set_mass(Some(f / (mu * G)), 0)?;
                r.fmax = mu * r.mass.unwrap() * G;
                Some(r)
            }
            1 => {
                // leaves the mass unchanged; an unreadable mass cannot be resolved
                let mass = m.mass_get().ok()?;
                m.fmax = f;
                m.mu = mass.map(|x| f / (x * G));
                Some(m)
            }
            2 => {
                m.fmax = f;
                m.mu = None;
                Some(m)
            }
            3 => {
                m.fmax = f;
                m.mass_to_none();
                Some(m)
            }
            _ => {
                m.fmax = f;
                m.mu = None;
                m.mass_to_none();
                Some(m)
            }
        }
    }
}

// ------------------------------------------------------------------------------------------------
// builders through files (the private mass fields are only reachable the way users reach them)
// ------------------------------------------------------------------------------------------------

fn yv(x: Option<f64>) -> serde_yaml::Value {
    match x {
        Some(v) => serde_yaml::Value::Number(serde_yaml::Number::from(v)),
        None => serde_yaml::Value::Null,
    }
}
fn set(v: &mut serde_yaml::Value, k: &str, x: serde_yaml::Value) {
    if let serde_yaml::Value::Mapping(m) = v {
        m.insert(serde_yaml::Value::String(k.into()), x);
    }
}
fn with_fields<T: SerdeAPI>(base: &T, fields: &[(&str, Option<f64>)]) -> anyhow::Result<T> {
    let mut v: serde_yaml::Value = serde_yaml::from_str(&base.to_yaml()?)?;
    for (k, x) in fields {
        set(&mut v, k, yv(*x));
    }
    T::from_yaml(serde_yaml::to_string(&v)?)
}

enum Obj {
    Fc(Box<FuelConverter>),
    Gen(Box<Generator>),
    Res(Box<ReversibleEnergyStorage>),
    Loco(Box<Locomotive>),
    Con(Box<Consist>),
}

fn side_mass(s: u8) -> MassSideEffect {
    match s {
        1 => MassSideEffect::Extensive,
        2 => MassSideEffect::Intensive,
        _ => MassSideEffect::None,
    }
}
fn side_mu(s: u8) -> MuSideEffect {
    match s {
        0 => MuSideEffect::Mass,
        1 => MuSideEffect::ForceMax,
        _ => MuSideEffect::SetMassToNone,
    }
}
fn side_f(s: u8) -> ForceMaxSideEffect {
    match s {
        0 => ForceMaxSideEffect::Mass,
        1 => ForceMaxSideEffect::UpdateMu,
        2 => ForceMaxSideEffect::SetMuToNone,
        3 => ForceMaxSideEffect::SetMassToNone,
        _ => ForceMaxSideEffect::SetMassAndMuToNone,
    }
}

type Getters = (Result<Option<f64>, String>, Result<Option<f64>, String>, Result<f64, String>);
fn loco_getters(l: &Locomotive) -> Getters {
    (
        l.mass().map(|m| m.map(|x| x.value)).map_err(|e| first(&e)),
        l.mu().map(|m| m.map(|x| x.value)).map_err(|e| first(&e)),
        l.force_max().map(|f| f.value).map_err(|e| first(&e)),
    )
}
fn first(e: &anyhow::Error) -> String {
    format!("{e:#}").lines().last().unwrap_or("").trim().chars().take(100).collect()
}

fn opt_eq(a: Option<f64>, b: Option<f64>) -> bool {
    match (a, b) {
        (None, None) => true,
        (Some(x), Some(y)) => close(x, y, 1e-9, 1e-9, 0.0),
        _ => false,
    }
}

fn check_comp(ctx: &mut Ctx, what: &str, got_mass: anyhow::Result<Option<si::Mass>>, got_derived: anyhow::Result<Option<si::Mass>>, p: f64, m: &CompModel) {
    let gm = got_mass.map(|x| x.map(|v| v.value));
    let gd = got_derived.map(|x| x.map(|v| v.value)).ok().flatten();
    match (m.mass_get(), &gm) {
        (Ok(want), Ok(got)) => {
            if !opt_eq(*got, want) {
                ctx.violate("C20", "mass_algebra", "component mass as the side-effect option states", format!("{what}: mass() = {got:?}, reference {want:?}"));
            }
        }
        (Err(()), Ok(got)) => ctx.violate("C20", "mass_algebra", "inconsistent mass is not reported", format!("{what}: mass() = {got:?} although stored and derived mass disagree in the reference")),
        (Ok(want), Err(e)) => ctx.violate("C20", "mass_algebra", "accepted update leaves mass readable", format!("{what}: mass() fails ({}) but reference says {want:?}", first(e))),
        (Err(()), Err(_)) => {}
    }
    if !opt_eq(gd, m.derived()) {
        ctx.violate("C20", "mass_algebra", "derived mass = rating / specific value", format!("{what}: derived_mass() = {gd:?}, reference {:?}", m.derived()));
    }
    if !close(p, m.p, 1e-9, 1e-9, 0.0) {
        ctx.violate("C20", "mass_algebra", "extensive side effect rescales the rating, others leave it", format!("{what}: rating {p} reference {}", m.p));
    }
}

fn check_loco(ctx: &mut Ctx, what: &str, l: &Locomotive, m: &LocoModel) {
    let (gm, gmu, gf) = loco_getters(l);
    // mass
    match (m.mass_get(), &gm) {
        (Ok(want), Ok(got)) => {
            if !opt_eq(*got, want) {
                ctx.violate("C20", "mass_algebra", "locomotive mass as the side-effect option states", format!("{what}: mass() = {got:?}, reference {want:?}"));
            }
        }
        (Ok(want), Err(e)) => ctx.violate("C20", "mass_algebra", "accepted update leaves mass readable", format!("{what}: mass() fails ({e}) but reference says {want:?}")),
        (Err(()), Ok(got)) => ctx.violate("C20", "mass_algebra", "inconsistent mass is not reported", format!("{what}: mass() = {got:?} although the reference has no consistent mass")),
        _ => {}
    }
    // (mu() and force_max() look at the mass: while stored mass and the sum of the parts disagree they may refuse)
    if m.force_consistent() && m.derived != Derived::Broken && m.mass_get().is_ok() {
        match (&gmu, &gf) {
            (Ok(mu), Ok(f)) => {
                if !opt_eq(*mu, m.mu) {
                    ctx.violate("C20", "mass_algebra", "adhesion coefficient as the side-effect option states", format!("{what}: mu() = {mu:?}, reference {:?}", m.mu));
                }
                if !close(*f, m.fmax, 1e-9, 1e-6, 0.0) {
                    ctx.violate("C20", "mass_algebra", "force_max = mu * mass * g / as the side-effect option states", format!("{what}: force_max() = {f}, reference {}", m.fmax));
                }
                if let (Some(mu), Ok(Some(mass))) = (mu, &gm) {
                    if !close(*f, mu * mass * G, 1e-7, 1e-6, 0.0) {
                        ctx.violate("C20", "mass_algebra", "force_max = mu * mass * g when both are known", format!("{what}: force_max {f} vs mu {mu} * mass {mass} * g = {}", mu * mass * G));
                    }
                }
            }
            (Err(e), _) | (_, Err(e)) => ctx.violate("C20", "mass_algebra", "accepted update leaves mu / force_max readable", format!("{what}: getter fails: {e}")),
        }
    }
}

fn build_loco(bel: bool, derived: bool, mass: Option<f64>, mu: Option<f64>, f_scale: f64) -> anyhow::Result<(Locomotive, LocoModel)> {
    let base = if bel { Locomotive::default_battery_electric_loco() } else { Locomotive::default() };
    let fmax = 667.2e3;
    // force_max must agree with mu and mass when both are given
    let fmax_eff = match (mu, mass) {
        (Some(a), Some(b)) => a * b * G * f_scale,
        _ => fmax,
    };
    if !derived {
        let l = with_fields(&base, &[("mass", mass), ("mu", mu), ("force_max", Some(fmax_eff))])?;
        return Ok((l, LocoModel { mass, mu, fmax: fmax_eff, derived: Derived::None }));
    }
    // redundant mass data: baseline + ballast + component masses, consistent with `mass` when given
    let mut v: serde_yaml::Value = serde_yaml::from_str(&base.to_yaml()?)?;
    let (comp_sum, path): (f64, Vec<(&str, f64)>) = if bel { (20_000.0, vec![("res", 20_000.0)]) } else { (15_000.0, vec![("fc", 10_000.0), ("gen", 5_000.0)]) };
    let total = mass.unwrap_or(195_000.0);
    let baseline = (total - comp_sum) * 0.8;
    let ballast = total - comp_sum - baseline;
    let kind = if bel { "BatteryElectricLoco" } else { "ConventionalLoco" };
    if let Some(lt) = v.get_mut("loco_type").and_then(|x| x.get_mut(kind)) {
        for (c, m) in &path {
            if let Some(cv) = lt.get_mut(*c) {
                set(cv, "mass", yv(Some(*m)));
            }
        }
    }
    set(&mut v, "baseline_mass", yv(Some(baseline)));
    set(&mut v, "ballast_mass", yv(Some(ballast)));
    set(&mut v, "mass", yv(mass));
    set(&mut v, "mu", yv(mu));
    let eff_mass = Some(total);
    let fmax_eff = match (mu, eff_mass) {
        (Some(a), Some(b)) => a * b * G * f_scale,
        _ => fmax,
    };
    set(&mut v, "force_max", yv(Some(fmax_eff)));
    let l = Locomotive::from_yaml(serde_yaml::to_string(&v)?)?;
    Ok((l, LocoModel { mass, mu, fmax: fmax_eff, derived: Derived::Some(comp_sum + baseline + ballast) }))
}

pub fn execute(case: &Case, ctx: &mut Ctx) {
    ctx.class.push(format!("mass:{:?}:m{}:s{}:mu{}", case.target, case.init_mass.is_some(), case.init_spec.is_some(), case.init_mu.is_some()));
    ctx.layer = "scenario-construction";
    // build
    let mut comp = CompModel { mass: case.init_mass, spec: case.init_spec, p: 0.0 };
    let mut locos: Vec<LocoModel> = vec![];
    let mut obj = match &case.target {
        Target::Fc => {
            let b = FuelConverter::default();
            comp.p = b.pwr_out_max.value;
            // a file whose redundant mass data disagree must not yield an object that reports a mass
            match with_fields(&b, &[("mass", case.init_mass), ("specific_pwr", case.init_spec)]) {
                Ok(x) => Obj::Fc(Box::new(x)),
                Err(_) => return,
            }
        }
        Target::Gen => {
            let b = Generator::default();
            comp.p = b.pwr_out_max.value;
            match with_fields(&b, &[("mass", case.init_mass), ("specific_pwr", case.init_spec)]) {
                Ok(x) => Obj::Gen(Box::new(x)),
                Err(_) => {
                    if comp.mass_get().is_ok() {
                        ctx.violate("C20", "mass_algebra", "file with consistent redundant mass data loads", format!("Generator with mass {:?} specific_pwr {:?} refused", case.init_mass, case.init_spec));
                    }
                    ctx.hit("fault.update.reject.inconsistent_file");
                    return;
                }
            }
        }
        Target::Res => {
            let b = ReversibleEnergyStorage::default();
            comp.p = b.energy_capacity.value;
            match with_fields(&b, &[("mass", case.init_mass), ("specific_energy", case.init_spec)]) {
                Ok(x) => Obj::Res(Box::new(x)),
                Err(_) => {
                    if comp.mass_get().is_ok() {
                        ctx.violate("C20", "mass_algebra", "file with consistent redundant mass data loads", format!("ReversibleEnergyStorage with mass {:?} specific_energy {:?} refused", case.init_mass, case.init_spec));
                    }
                    ctx.hit("fault.update.reject.inconsistent_file");
                    return;
                }
            }
        }
        Target::Loco { bel, derived } => match build_loco(*bel, *derived, case.init_mass, case.init_mu, case.init_spec.unwrap_or(1.0)) {
            Ok((l, m)) => {
                // a file whose force_max disagrees with its mu and (stored or derived) mass loads, but the
                // getters must refuse to report from it
                if !m.force_consistent() {
                    ctx.hit("fault.update.reject.inconsistent_file");
                    if l.force_max().is_ok() || l.mu().is_ok() {
                        ctx.violate("C20", "mass_algebra", "inconsistent file is not reported from", format!("force_max() = {:?}, mu() = {:?} although force_max in the file is not mu * mass * g (reference {m:?})", l.force_max().map(|x| x.value).ok(), l.mu().ok()));
                    }
                    return;
                }
                locos.push(m);
                Obj::Loco(Box::new(l))
            }
            Err(e) => {
                ctx.violate("C20", "mass_algebra", "file with consistent redundant mass data loads", format!("Locomotive refused: {}", first(&e)));
                return;
            }
        },
        Target::Consist { n } => {
            let mut v = vec![];
            for k in 0..*n {
                match build_loco(k % 2 == 1, false, case.init_mass, case.init_mu, 1.0) {
                    Ok((l, m)) => {
                        v.push(l);
                        locos.push(m);
                    }
                    Err(_) => return,
                }
            }
            Obj::Con(Box::new(Consist::new(v, None, PowerDistributionControlType::default())))
        }
    };
    if let (Obj::Fc(_), Err(())) = (&obj, comp.mass_get()) {
        // FuelConverter::init does not look at mass: the inconsistent file loads, mass() must then refuse
        ctx.hit("fault.update.reject.inconsistent_file");
    }
    ctx.layer = "mass.update";
    let n_ops = case.ops.len();
    for (k, op) in case.ops.iter().enumerate() {
        ctx.event = k;
        match op {
            Op::Crash { fmt } => {
                ctx.layer = "save/load";
                macro_rules! crash {
                    ($x:expr, $ctor:path) => {{
                        match ser::crash_restore(&**$x, *fmt, Chan::Str, ctx) {
                            Ok((y, _)) => Some($ctor(Box::new(y))),
                            Err(e) => {
                                Some(e).map(|e| {
                                    ctx.hit_dyn(format!("note.reload_refused: {}", e.chars().take(80).collect::<String>()));
                                });
                                None
                            }
                        }
                    }};
                }
                let reloaded = match &obj {
                    Obj::Fc(x) => crash!(x, Obj::Fc),
                    Obj::Gen(x) => crash!(x, Obj::Gen),
                    Obj::Res(x) => crash!(x, Obj::Res),
                    Obj::Loco(x) => crash!(x, Obj::Loco),
                    Obj::Con(x) => crash!(x, Obj::Con),
                };
                // a state the setters accepted must load (init() re-checks mass consistency)
                let consistent = match &obj {
                    Obj::Fc(_) | Obj::Gen(_) | Obj::Res(_) => comp.mass_get().is_ok(),
                    // a consist reports its mass only when all of its units know theirs or none does
                    Obj::Con(_) => {
                        let ms: Vec<Result<Option<f64>, ()>> = locos.iter().map(|m| m.mass_get()).collect();
                        ms.iter().all(|m| m.is_ok()) && (ms.iter().all(|m| matches!(m, Ok(None))) || ms.iter().all(|m| matches!(m, Ok(Some(_)))))
                    }
                    _ => locos.iter().all(|m| m.mass_get().is_ok()),
                };
                match reloaded {
                    Some(o) => obj = o,
                    None => {
                        if consistent {
                            ctx.violate("C20", "mass_algebra", "a state the setters accepted reloads", format!("reload in {fmt:?} refused after {k} ops"));
                        }
                        return;
                    }
                }
                ctx.layer = "mass.update";
            }
            Op::SetMass { unit, new, side } => match &mut obj {
                Obj::Fc(_) | Obj::Gen(_) | Obj::Res(_) => {
                    let before_ok = comp.mass_get().is_ok();
                    let r = match &mut obj {
                        Obj::Fc(x) => x.set_mass(new.map(|v| v * uc::KG), side_mass(*side)),
                        Obj::Gen(x) => x.set_mass(new.map(|v| v * uc::KG), side_mass(*side)),
                        Obj::Res(x) => x.set_mass(new.map(|v| v * uc::KG), side_mass(*side)),
                        _ => unreachable!(),
                    };
                    let _ = before_ok;
                    match r {
                        Ok(()) => {
                            comp.set_mass(*new, *side);
                            ctx.hit("stat.updates_accepted");
                        }
                        Err(e) => {
                            // component set_mass has no rejecting branch in the reference
                            ctx.violate("C20", "mass_algebra", "update resolved as the side-effect option states", format!("set_mass({new:?}, side {side}) refused: {}", first(&e)));
                        }
                    }
                    let what = format!("after op {k} {op:?}");
                    match &obj {
                        Obj::Fc(x) => check_comp(ctx, &what, x.mass(), x.derived_mass(), x.pwr_out_max.value, &comp),
                        Obj::Gen(x) => check_comp(ctx, &what, x.mass(), x.derived_mass(), x.pwr_out_max.value, &comp),
                        Obj::Res(x) => check_comp(ctx, &what, x.mass(), x.derived_mass(), x.energy_capacity.value, &comp),
                        _ => {}
                    }
                }
                Obj::Loco(_) | Obj::Con(_) => {
                    let u = (*unit).min(locos.len() - 1);
                    let want = locos[u].set_mass(*new, *side);
                    loco_update(ctx, &mut obj, u, &mut locos, want, k, op, |l| l.set_mass(new.map(|v| v * uc::KG), side_mass(*side)));
                }
            },
            Op::InnerCompMass { unit, delta } => {
                let u = (*unit).min(locos.len().saturating_sub(1));
                let l: Option<&mut Locomotive> = match &mut obj {
                    Obj::Loco(l) => Some(l),
                    Obj::Con(c) => c.loco_vec.get_mut(u),
                    _ => None,
                };
                if let (Some(l), Some(Derived::Some(d))) = (l, locos.get(u).map(|m| m.derived.clone())) {
                    // through the component's own setter (Intensive: the component stays consistent in itself)
                    let r: Option<anyhow::Result<()>> = match &mut l.loco_type {
                        PowertrainType::BatteryElectricLoco(b) => match b.res.mass() {
                            Ok(Some(m)) if m.value + delta > 100.0 => Some(b.res.set_mass(Some((m.value + delta) * uc::KG), MassSideEffect::Intensive)),
                            _ => None,
                        },
                        PowertrainType::ConventionalLoco(c) => match c.fc.mass() {
                            Ok(Some(m)) if m.value + delta > 100.0 => Some(c.fc.set_mass(Some((m.value + delta) * uc::KG), MassSideEffect::Intensive)),
                            _ => None,
                        },
                        _ => None,
                    };
                    if let Some(Ok(())) = r {
                        locos[u].derived = Derived::Some(d + delta);
                        ctx.hit("fault.update.component_inside_locomotive");
                        // the locomotive is now out of step with its own parts until it is re-synchronised: what must
                        // hold meanwhile is only that it does not REPORT a mass its parts contradict
                        let what = format!("after op {k} {op:?}");
                        match (locos[u].mass_get(), l.mass()) {
                            (Err(()), Ok(got)) => ctx.violate("C20", "mass_algebra", "inconsistent mass is not reported", format!("{what}: mass() = {:?} although the stored mass and the sum of the parts disagree", got.map(|x| x.value))),
                            (Ok(want), Ok(got)) => {
                                if !opt_eq(got.map(|x| x.value), want) {
                                    ctx.violate("C20", "mass_algebra", "locomotive mass as the side-effect option states", format!("{what}: mass() = {:?}, reference {want:?}", got.map(|x| x.value)));
                                }
                            }
                            _ => {}
                        }
                    }
                }
            }
            Op::SetMu { unit, mu, side } => {
                if let Obj::Loco(_) | Obj::Con(_) = obj {
                    let u = (*unit).min(locos.len() - 1);
                    let want = locos[u].set_mu(*mu, *side);
                    loco_update(ctx, &mut obj, u, &mut locos, want, k, op, |l| l.set_mu(*mu * uc::R, side_mu(*side)));
                }
            }
            Op::SetForceMax { unit, f, side } => {
                if let Obj::Loco(_) | Obj::Con(_) = obj {
                    let u = (*unit).min(locos.len() - 1);
                    let want = locos[u].set_force_max(*f, *side);
                    loco_update(ctx, &mut obj, u, &mut locos, want, k, op, |l| l.set_force_max(*f * uc::N, side_f(*side)));
                }
            }
        }
        ctx.trace.u(k as u64);
        // consist sums
        if let Obj::Con(c) = &obj {
            let all_ok = locos.iter().all(|m| m.mass_get().is_ok() && m.force_consistent() && m.derived != Derived::Broken);
            if all_ok {
                let masses: Vec<Option<f64>> = locos.iter().map(|m| m.mass_get().unwrap()).collect();
                let want_mass = if masses.iter().all(|x| x.is_some()) { Some(Some(masses.iter().map(|x| x.unwrap()).sum::<f64>())) } else if masses.iter().all(|x| x.is_none()) { Some(None) } else { None };
                match (c.mass(), want_mass) {
                    (Ok(got), Some(w)) => {
                        if !opt_eq(got.map(|x| x.value), w) {
                            ctx.violate("C20", "mass_algebra", "consist mass = sum of its locomotives", format!("after op {k}: consist mass {:?}, reference {w:?}", got.map(|x| x.value)));
                        }
                    }
                    (Err(e), Some(w)) => ctx.violate("C20", "mass_algebra", "consist mass = sum of its locomotives", format!("after op {k}: consist mass() fails ({}) but reference {w:?}", first(&e))),
                    (Ok(got), None) => ctx.violate("C20", "mass_algebra", "mixed known/unknown unit masses are refused", format!("after op {k}: consist mass {:?} with unit masses {masses:?}", got.map(|x| x.value))),
                    _ => {}
                }
                let want_f: f64 = locos.iter().map(|m| m.fmax).sum();
                match c.force_max() {
                    Ok(f) => {
                        if !close(f.value, want_f, 1e-9, 1e-6, 0.0) {
                            ctx.violate("C20", "mass_algebra", "consist force_max = sum of its units", format!("after op {k}: {} vs {want_f}", f.value));
                        }
                    }
                    Err(e) => ctx.violate("C20", "mass_algebra", "consist force_max = sum of its units", format!("after op {k}: force_max() fails: {}", first(&e))),
                }
                ctx.hit("probe.mass.consist_sums_checked");
            }
        }
    }
    ctx.nontrivial = n_ops >= 2;
}

#[allow(clippy::too_many_arguments)]
fn loco_update(ctx: &mut Ctx, obj: &mut Obj, u: usize, locos: &mut [LocoModel], want: Option<LocoModel>, k: usize, op: &Op, f: impl FnOnce(&mut Locomotive) -> anyhow::Result<()>) {
    let l: &mut Locomotive = match obj {
        Obj::Loco(l) => l,
        Obj::Con(c) => &mut c.loco_vec[u],
        _ => return,
    };
    let pre_model_ok = locos[u].mass_get().is_ok() && locos[u].force_consistent() && locos[u].derived != Derived::Broken;
    let before = loco_getters(l);
    let r = f(l);
    let what = format!("after op {k} {op:?}");
    match (r, want) {
        (Ok(()), Some(m)) => {
            locos[u] = m;
            ctx.hit("stat.updates_accepted");
            check_loco(ctx, &what, l, &locos[u]);
        }
        (Err(e), None) => {
            ctx.hit("fault.update.reject");
            // rejected => nothing may have changed (the object stays as consistent as it was)
            if pre_model_ok {
                let after = loco_getters(l);
                if after != before {
                    let mut sg = sig1("op", format!("{op:?}").split(' ').next().unwrap_or("").to_string());
                    sg.insert("kind".into(), "rejected_update_changed_state".into());
                    ctx.violate_sig("C20", "atomicity", "rejected update leaves the object unchanged", format!("{what}: refused ({}) but getters changed from {before:?} to {after:?}", first(&e)), sg);
                    // keep going from what the object now is: resynchronise the reference where it can be read
                    resync(l, &mut locos[u]);
                }
            }
        }
        (Ok(()), None) => {
            ctx.violate("C20", "mass_algebra", "inconsistent update is rejected", format!("{what}: accepted although the side-effect option cannot be honoured (reference {:?})", locos[u]));
            resync(l, &mut locos[u]);
        }
        (Err(e), Some(m)) => {
            let mut sg = sig1("op", format!("{op:?}").split(' ').next().unwrap_or("").to_string());
            sg.insert("kind".into(), "consistent_update_refused".into());
            ctx.violate_sig("C20", "mass_algebra", "update resolved as the side-effect option states", format!("{what}: refused ({}) although the option can be honoured (reference result {m:?})", first(&e)), sg);
            let after = loco_getters(l);
            if pre_model_ok && after != before {
                let mut sg = sig1("op", format!("{op:?}").split(' ').next().unwrap_or("").to_string());
                sg.insert("kind".into(), "rejected_update_changed_state".into());
                ctx.violate_sig("C20", "atomicity", "rejected update leaves the object unchanged", format!("{what}: refused but getters changed from {before:?} to {after:?}"), sg);
            }
            resync(l, &mut locos[u]);
        }
    }
}

/// after a disagreement the run continues from the object's own (readable) state
fn resync(l: &Locomotive, m: &mut LocoModel) {
    // read the raw fields through serde (getters may fail)
    if let Ok(v) = serde_yaml::to_value(l) {
        m.mass = v.get("mass").and_then(|x| x.as_f64());
        m.mu = v.get("mu").and_then(|x| x.as_f64());
        if let Some(f) = v.get("force_max").and_then(|x| x.as_f64()) {
            m.fmax = f;
        }
        let has_bb = v.get("baseline_mass").and_then(|x| x.as_f64()).is_some();
        if has_bb {
            let comp_ok = match &l.loco_type {
                PowertrainType::ConventionalLoco(c) => c.fc.mass().ok().flatten().is_some() && c.gen.mass().ok().flatten().is_some(),
                PowertrainType::BatteryElectricLoco(b) => b.res.mass().ok().flatten().is_some(),
                _ => false,
            };
            if !comp_ok {
                m.derived = Derived::Broken;
            }
        }
    }
}

pub fn shrink(case: &Case) -> Vec<Case> {
    let mut out = vec![];
    for k in 0..case.ops.len() {
        let mut c = case.clone();
        c.ops.remove(k);
        out.push(c);
    }
    if let Target::Consist { n } = case.target {
        if n > 1 {
            let mut c = case.clone();
            c.target = Target::Consist { n: n - 1 };
            out.push(c);
        }
    }
    if case.init_spec.is_some() {
        let mut c = case.clone();
        c.init_spec = None;
        out.push(c);
    }
    out
}
