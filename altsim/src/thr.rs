//! World `thr` (threads & hashes, C18).
//!  (a) Controlled schedules: `LocomotiveSimulationVec::walk(true)` through the executor seam (H2) under
//!      shuttle - W simulated workers claim elements from a shared queue, every simulation step is a
//!      scheduling point, after an error workers stop claiming but in-flight elements finish (rayon's
//!      try_for_each contract). Seeded Random and PCT schedulers; a failing run is replayed from
//!      (case, scheduler seed, iteration count).
//!  (b) Hash seeds: another world's case executed under RandomState keys A, A again, and B: identical
//!      outputs (trace hash over every observed state).
//!  (c) Stub validation: the real rayon branch in local pools of 1..16 threads (observation of
//!      uncontrolled threads, labelled as such).

use crate::cases;
use crate::core::*;
use crate::pt;
use crate::rng::Rng;
use altrios_core::consist::locomotive::loco_sim::{LocomotiveSimulation, LocomotiveSimulationVec, PowerTrace};
use altrios_core::verif_hooks;
use serde::{Deserialize, Serialize};
use std::cell::Cell;
use std::sync::{Arc, Mutex};

#[derive(Serialize, Deserialize, Clone, Debug)]
pub struct SimSpec {
    pub loco: pt::LocoSpec,
    pub n_steps: usize,
    /// step index whose demand is far above the rating (the element fails there)
    pub fail_at: Option<usize>,
    pub save_interval: Option<usize>,
}

#[derive(Serialize, Deserialize, Clone, Debug)]
pub enum Sched {
    Random,
    Pct(usize),
}

#[derive(Serialize, Deserialize, Clone, Debug)]
pub enum Case {
    Schedules { sims: Vec<SimSpec>, workers: usize, sched: Sched, iters: usize, sched_seed: u64, hash_seed: u64 },
    HashRepeat { inner: Box<cases::Case>, seed_a: u64, seed_b: u64, hash_seed: u64 },
    Rayon { sims: Vec<SimSpec>, threads: usize, hash_seed: u64 },
    /// another world's case executed inside private rayon pools of different sizes (and outside any): whatever
    /// the library parallelises internally must not make results depend on the worker count
    PoolRepeat { inner: Box<cases::Case>, threads: Vec<usize>, seed: u64, hash_seed: u64 },
    /// another world's case executed on a fresh thread, and again on a thread (and in a process) that has
    /// just executed a different case of the same world: hidden state (statics, thread-locals, caches keyed
    /// too coarsely) must not carry over from one simulation to the next
    HistoryRepeat { inner: Box<cases::Case>, before: Box<cases::Case>, seed: u64, hash_seed: u64 },
    /// a whole-network batch operation (`Network::set_speed_set_for_train_type`) on a chain of `n_links` links
    /// of which those at `missing` carry no speed set for the requested train type (the operation must fail
    /// there): executed outside any pool and, twice each, inside private rayon pools of `threads` threads.
    /// Result, error text and the state the network is left in must not depend on the worker count.
    NetBatch { n_links: usize, missing: Vec<usize>, type_bits: u64, threads: Vec<usize>, hash_seed: u64 },
}

impl Case {
    pub fn hash_seed(&self) -> u64 {
        match self {
            Case::Schedules { hash_seed, .. } | Case::HashRepeat { hash_seed, .. } | Case::Rayon { hash_seed, .. } | Case::PoolRepeat { hash_seed, .. } | Case::HistoryRepeat { hash_seed, .. } | Case::NetBatch { hash_seed, .. } => *hash_seed,
        }
    }
    pub fn size(&self) -> usize {
        match self {
            Case::Schedules { sims, workers, iters, .. } => sims.len() * 4 + workers + iters / 4 + sims.iter().map(|s| s.n_steps / 8).sum::<usize>(),
            Case::HashRepeat { inner, .. } | Case::PoolRepeat { inner, .. } => inner.size(),
            Case::HistoryRepeat { inner, before, .. } => inner.size() + before.size(),
            Case::Rayon { sims, threads, .. } => sims.len() * 4 + threads,
            Case::NetBatch { n_links, missing, threads, .. } => n_links / 16 + missing.len() * 4 + threads.len(),
        }
    }
}

fn gen_sims(rng: &mut Rng, max_n: usize) -> Vec<SimSpec> {
    let n = rng.usize(1, max_n);
    let p_fail = *rng.pick(&[0.0, 0.0, 0.15, 0.4]);
    (0..n)
        .map(|_| {
            let bel = rng.chance(0.4);
            let mut loco = pt::gen_loco(rng, bel);
            // shipped (flat) generator / drivetrain maps so that the gentle trace below is accepted
            match &mut loco.kind {
                pt::KindSpec::Conv { fc, gen, edrv } => {
                    gen.map = pt::MapSpec::default();
                    edrv.map = pt::MapSpec::default();
                    gen.p_max = gen.p_max.max(fc.p_max * 1.3);
                    edrv.p_max = edrv.p_max.max(fc.p_max * 1.3);
                }
                pt::KindSpec::Bel { edrv, .. } => edrv.map = pt::MapSpec::default(),
                _ => {}
            }
            let n_steps = rng.usize(5, 80);
            SimSpec { loco, n_steps, fail_at: if rng.chance(p_fail) { Some(rng.usize(1, n_steps)) } else { None }, save_interval: *rng.pick(&[Some(1), Some(1), None, Some(3)]) }
        })
        .collect()
}

fn gen_net_batch(rng: &mut Rng) -> Case {
    // sizes log-uniform between 40 and 40 000 links
    let n_links = (40.0 * (1000.0f64).powf(rng.f())) as usize;
    let mut missing: Vec<usize> = vec![];
    match rng.below(5) {
        0 => {}
        1 => missing.push(rng.usize(1, n_links)),
        _ => {
            // two failing links either side of a point at which a divide-and-conquer executor would split the
            // sequence (halves, quarters, eighths), plus sometimes a few anywhere
            let parts = *rng.pick(&[2usize, 2, 4, 4, 8, 16]);
            let at = (n_links * rng.usize(1, parts - 1) / parts).max(2);
            let before = at.saturating_sub(rng.usize(1, (n_links / 64).clamp(1, 40))).max(1);
            let after = (at + rng.usize(0, (n_links / 64).clamp(1, 40))).min(n_links);
            missing.push(before);
            if after != before {
                missing.push(after);
            }
            for _ in 0..rng.below(3) {
                missing.push(rng.usize(1, n_links));
            }
            missing.sort();
            missing.dedup();
        }
    }
    let mut threads = vec![1, *rng.pick(&[2, 2, 3, 4]), *rng.pick(&[5, 8, 16])];
    if rng.chance(0.3) {
        threads.push(*rng.pick(&[6, 7, 12]));
    }
    Case::NetBatch { n_links, missing, type_bits: rng.next(), threads, hash_seed: rng.next() }
}

pub fn generate(rng: &mut Rng, _focus: &str, thorough: bool) -> Case {
    match rng.below(15) {
        14 => gen_net_batch(rng),
        12..=13 => {
            let inner_prop = *rng.pick(&["C10", "C10", "C14", "C03", "C04", "C02"]);
            let inner = cases::generate_world(inner_prop, "C18", rng, thorough);
            let before = cases::generate_world(inner_prop, "C18", rng, thorough);
            Case::HistoryRepeat { inner: Box::new(inner), before: Box::new(before), seed: rng.next(), hash_seed: rng.next() }
        }
        10..=11 => {
            // consists (pt), trains (trn) and dispatch scenarios (dsp): everything built on top of a consist
            let inner_prop = *rng.pick(&["C10", "C10", "C14", "C03", "C04"]);
            let inner = cases::generate_world(inner_prop, "C18", rng, thorough);
            let mut threads = vec![1, *rng.pick(&[2, 2, 3, 4]), *rng.pick(&[5, 8, 16])];
            if rng.chance(0.3) {
                threads.push(*rng.pick(&[6, 7, 12]));
            }
            Case::PoolRepeat { inner: Box::new(inner), threads, seed: rng.next(), hash_seed: rng.next() }
        }
        0..=5 => Case::Schedules {
            sims: gen_sims(rng, 12),
            workers: rng.usize(1, 16),
            sched: if rng.chance(0.6) { Sched::Random } else { Sched::Pct(rng.usize(2, 4)) },
            iters: if thorough { 60 } else { 24 },
            sched_seed: rng.next(),
            hash_seed: rng.next(),
        },
        6..=8 => {
            let inner_prop = *rng.pick(&["C03", "C14", "C04", "C04", "C02", "C13", "C16", "C14", "C10", "C06"]);
            let inner = cases::generate_world(inner_prop, "C18", rng, thorough);
            Case::HashRepeat { inner: Box::new(inner), seed_a: rng.next(), seed_b: rng.next(), hash_seed: rng.next() }
        }
        _ => Case::Rayon { sims: gen_sims(rng, 12), threads: *rng.pick(&[1, 2, 4, 16]), hash_seed: rng.next() },
    }
}

fn rating(l: &pt::LocoSpec) -> (f64, f64) {
    match &l.kind {
        pt::KindSpec::Conv { fc, .. } => (fc.p_max, fc.lag),
        pt::KindSpec::Bel { res, edrv } => (res.p_max.min(edrv.p_max), 5.0),
        pt::KindSpec::Hybrid => (1e6, 25.0),
    }
}

pub fn build_sim(s: &SimSpec) -> LocomotiveSimulation {
    let loco = pt::build_loco(&s.loco, s.save_interval);
    let (p, lag) = rating(&s.loco);
    let n = s.n_steps + 1;
    let time: Vec<f64> = (0..n).map(|k| k as f64).collect();
    let mut pwr: Vec<f64> = (0..n)
        .map(|k| {
            let up = (k as f64 / (lag + 8.0)).min(1.0);
            let down = (((n - k) as f64) / 6.0).min(1.0);
            0.45 * p * up * down
        })
        .collect();
    if let Some(f) = s.fail_at {
        pwr[f.min(n - 1)] = 3.0 * p;
    }
    LocomotiveSimulation::new(loco, PowerTrace::new(time, pwr, vec![Some(true); n]), s.save_interval)
}

// ------------------------------------------------------------------------------------------------
// executor stub (runs on shuttle threads) - reproduces rayon's try_for_each contract
// ------------------------------------------------------------------------------------------------

thread_local! {
    static WORKERS: Cell<usize> = const { Cell::new(1) };
    static CLAIM_LOG: std::cell::RefCell<Vec<usize>> = const { std::cell::RefCell::new(vec![]) };
    static CANCELLED_AFTER: Cell<usize> = const { Cell::new(0) };
}

fn yield_hook() {
    // a scheduling point per simulation step; sleep() is a plain switch (yield_now would make PCT degenerate)
    shuttle::thread::sleep(std::time::Duration::from_millis(0));
}

fn par_exec(sims: &mut [LocomotiveSimulation]) -> anyhow::Result<()> {
    use shuttle::sync::Mutex as SMutex;
    let w = WORKERS.with(|c| c.get()).max(1);
    let queue: SMutex<std::collections::VecDeque<(usize, &mut LocomotiveSimulation)>> = SMutex::new(sims.iter_mut().enumerate().collect());
    let cancel = shuttle::sync::atomic::AtomicBool::new(false);
    let first_err: SMutex<Option<anyhow::Error>> = SMutex::new(None);
    let claims: SMutex<Vec<usize>> = SMutex::new(vec![]);
    let skipped = shuttle::sync::atomic::AtomicUsize::new(0);
    shuttle::thread::scope(|sc| {
        for _ in 0..w {
            sc.spawn(|| loop {
                if cancel.load(std::sync::atomic::Ordering::SeqCst) {
                    // stop claiming; what is in flight on other workers finishes
                    skipped.fetch_add(queue.lock().unwrap().len(), std::sync::atomic::Ordering::SeqCst);
                    break;
                }
                let item = queue.lock().unwrap().pop_front();
                let Some((i, sim)) = item else { break };
                claims.lock().unwrap().push(i);
                if let Err(e) = sim.walk().map_err(|err| err.context(format!("loco_sim idx:{}", i))) {
                    cancel.store(true, std::sync::atomic::Ordering::SeqCst);
                    let mut fe = first_err.lock().unwrap();
                    if fe.is_none() {
                        *fe = Some(e);
                    }
                }
            });
        }
    });
    let c = claims.into_inner().unwrap();
    CLAIM_LOG.with(|l| *l.borrow_mut() = c);
    CANCELLED_AFTER.with(|x| x.set(skipped.load(std::sync::atomic::Ordering::SeqCst)));
    match first_err.into_inner().unwrap() {
        Some(e) => Err(e),
        None => Ok(()),
    }
}

fn first(e: &anyhow::Error) -> String {
    format!("{e:#}").lines().next().unwrap_or("").trim().chars().take(120).collect()
}

/// what each element looks like when walked on its own (independent of batch, order, schedule)
struct Alone {
    input: LocomotiveSimulation,
    done: LocomotiveSimulation,
    ok: bool,
}

fn alone(specs: &[SimSpec]) -> Vec<Alone> {
    specs
        .iter()
        .map(|s| {
            let input = build_sim(s);
            let mut done = input.clone();
            let ok = done.walk().is_ok();
            Alone { input, done, ok }
        })
        .collect()
}

/// parallel outcome vs the serial walk and vs each element on its own
fn judge(out: &[LocomotiveSimulation], res: &anyhow::Result<()>, al: &[Alone], serial: &(Vec<LocomotiveSimulation>, anyhow::Result<()>), how: &str) -> Vec<(String, String)> {
    let mut v = vec![];
    let any_fail = al.iter().any(|a| !a.ok);
    if res.is_ok() != !any_fail {
        v.push(("error reported iff an element fails".into(), format!("{how}: result {:?} but failing elements {:?}", res.as_ref().map_err(first), al.iter().enumerate().filter(|(_, a)| !a.ok).map(|(i, _)| i).collect::<Vec<_>>())));
    }
    if let Err(e) = res {
        let msg = format!("{e:#}");
        let idx = msg.split("loco_sim idx:").nth(1).and_then(|s| s.split(|c: char| !c.is_ascii_digit()).next()).and_then(|s| s.parse::<usize>().ok());
        match idx {
            Some(i) if i < al.len() && !al[i].ok => {}
            _ => v.push(("error names the failing element".into(), format!("{how}: error {:?}, failing elements {:?}", first(e), al.iter().enumerate().filter(|(_, a)| !a.ok).map(|(i, _)| i).collect::<Vec<_>>()))),
        }
    }
    for (j, o) in out.iter().enumerate() {
        if o.power_trace != al[j].input.power_trace {
            v.push(("inputs of every element unchanged".into(), format!("{how}: element {j}: power trace changed")));
        }
        let processed = *o == al[j].done;
        let untouched = *o == al[j].input;
        if !(processed || (untouched && any_fail)) {
            v.push(("parallel result of every element = its serial result (bit-exact)".into(), format!("{how}: element {j} is neither its own serial result nor untouched (i = {} vs {} ; energy_out {} vs {})", o.i, al[j].done.i, o.loco_unit.state.energy_out.value, al[j].done.loco_unit.state.energy_out.value)));
        }
    }
    if !any_fail && serial.1.is_ok() && out != serial.0.as_slice() {
        v.push(("parallel batch = serial batch (bit-exact)".into(), format!("{how}: batches differ")));
    }
    v
}

pub fn execute(case: &Case, ctx: &mut Ctx) {
    match case {
        Case::Schedules { sims, workers, sched, iters, sched_seed, .. } => {
            ctx.class.push(format!("thr:sched:{:?}:n{}:w{}:fail{}", sched, sims.len(), workers, sims.iter().filter(|s| s.fail_at.is_some()).count()));
            ctx.layer = "batch-walk";
            let al = Arc::new(alone(sims));
            let serial = {
                let mut v = LocomotiveSimulationVec(al.iter().map(|a| a.input.clone()).collect());
                let r = v.walk(false);
                Arc::new((v.0, r))
            };
            let viol: Arc<Mutex<Vec<(String, String)>>> = Arc::new(Mutex::new(vec![]));
            let stats: Arc<Mutex<(u64, u64, std::collections::BTreeSet<u64>)>> = Arc::new(Mutex::new((0, 0, Default::default())));
            let mut cfg = shuttle::Config::new();
            cfg.stack_size = 1 << 20;
            cfg.failure_persistence = shuttle::FailurePersistence::None;
            WORKERS.with(|c| c.set(*workers));
            verif_hooks::set_yield(Some(yield_hook));
            verif_hooks::set_par_walk(Some(par_exec));
            let (al2, serial2, viol2, stats2) = (al.clone(), serial.clone(), viol.clone(), stats.clone());
            let body = move || {
                let mut v = LocomotiveSimulationVec(al2.iter().map(|a| a.input.clone()).collect());
                let r = v.walk(true);
                let claims = CLAIM_LOG.with(|l| l.borrow().clone());
                let skipped = CANCELLED_AFTER.with(|x| x.get());
                let mut h = crate::rng::Trace::default();
                for c in &claims {
                    h.u(*c as u64);
                }
                {
                    let mut st = stats2.lock().unwrap();
                    st.0 += 1;
                    if skipped > 0 {
                        st.1 += 1;
                    }
                    st.2.insert(h.0);
                }
                let vs = judge(&v.0, &r, &al2, &serial2, "shuttle schedule");
                if !vs.is_empty() {
                    viol2.lock().unwrap().extend(vs);
                }
            };
            let seed = *sched_seed;
            let it = *iters;
            // PCT insists on real concurrency: a single worker is scheduled randomly
            let sched = if *workers < 2 || sims.len() < 2 { Sched::Random } else { sched.clone() };
            let r = std::panic::catch_unwind(std::panic::AssertUnwindSafe(move || match sched {
                Sched::Random => shuttle::Runner::new(shuttle::scheduler::RandomScheduler::new_from_seed(seed, it), cfg).run(body),
                Sched::Pct(d) => shuttle::Runner::new(shuttle::scheduler::PctScheduler::new_from_seed(seed, d, it), cfg).run(body),
            }));
            verif_hooks::set_yield(None);
            verif_hooks::set_par_walk(None);
            if r.is_err() {
                let (loc, msg) = crate::take_last_panic();
                ctx.violate("C18", "schedules", "batch walk never panics under any schedule", format!("panic at {loc}: {}", msg.lines().next().unwrap_or("")));
            }
            let st = stats.lock().unwrap();
            ctx.add("stat.schedules_run", st.0);
            ctx.add("stat.distinct_claim_orders", st.2.len() as u64);
            if st.1 > 0 {
                ctx.add("probe.thr.cancel_after_error", st.1);
            }
            ctx.add("fault.sched.shuttle", st.0);
            for x in st.2.iter().take(8) {
                ctx.class.push(format!("claims{x:x}"));
            }
            for (c, d) in viol.lock().unwrap().iter().take(6) {
                ctx.violate("C18", "schedules", c, d.clone());
            }
            ctx.trace.u(st.0);
            ctx.nontrivial = sims.len() >= 2 && *workers >= 2;
        }
        Case::Rayon { sims, threads, .. } => {
            ctx.class.push(format!("thr:rayon:n{}:t{}", sims.len(), threads));
            ctx.layer = "batch-walk";
            let al = alone(sims);
            let serial = {
                let mut v = LocomotiveSimulationVec(al.iter().map(|a| a.input.clone()).collect());
                let r = v.walk(false);
                (v.0, r)
            };
            // no executor registered: the shipped rayon branch runs (uncontrolled OS threads - observation only)
            let pool = rayon::ThreadPoolBuilder::new().num_threads(*threads).build();
            if let Ok(pool) = pool {
                let mut v = LocomotiveSimulationVec(al.iter().map(|a| a.input.clone()).collect());
                let r = pool.install(|| v.walk(true));
                for (c, d) in judge(&v.0, &r, &al, &serial, "real rayon pool") {
                    ctx.violate("C18", "rayon", &c, d);
                }
                ctx.hit("stat.rayon_batches");
                ctx.hit("fault.sched.real_rayon_pool");
            }
            ctx.nontrivial = sims.len() >= 2 && *threads >= 2;
        }
        Case::NetBatch { n_links, missing, type_bits, threads, .. } => {
            ctx.class.push(format!("thr:netbatch:n{}:m{}:{:?}", (*n_links as f64).log2() as u32, missing.len().min(3), threads));
            ctx.layer = "net-batch";
            let tt = crate::trk::type_from_bits(*type_bits);
            let net = net_batch_network(*n_links, missing, tt);
            let run = |pool: Option<usize>| -> Option<(String, u64)> {
                let mut n = net.clone();
                let r = match pool {
                    None => n.set_speed_set_for_train_type(tt),
                    Some(k) => rayon::ThreadPoolBuilder::new().num_threads(k).build().ok()?.install(|| n.set_speed_set_for_train_type(tt)),
                };
                let mut h = crate::rng::Trace::default();
                for l in n.0.iter() {
                    h.u(l.speed_set.is_some() as u64 * 2 + l.speed_sets.len() as u64);
                    if let Some(ss) = &l.speed_set {
                        h.u(ss.speed_limits.first().map(|x| x.speed.value.to_bits()).unwrap_or(7));
                    }
                }
                Some((match r { Ok(()) => "Ok".to_string(), Err(e) => format!("Err: {}", first(&e)) }, h.0))
            };
            let Some(plain) = run(None) else { return };
            ctx.trace.u(plain.1);
            ctx.hit("stat.net_batches");
            // what the statement fixes without reference to any other execution: success iff nothing is missing;
            // a failure names one of the links that cannot be converted
            let named_ok = |txt: &str| missing.iter().any(|m| txt.contains(&format!("`idx_curr`: {m}:")) || txt.ends_with(&format!("`idx_curr`: {m}")) || txt.contains(&format!("`idx_curr`: {m} ")));
            if missing.is_empty() != (plain.0 == "Ok") {
                ctx.violate("C18", "net_batch", "whole-network operation fails iff some link cannot be converted", format!("{} links, missing {:?}: {}", n_links, missing, plain.0));
            } else if plain.0 != "Ok" && !named_ok(&plain.0) {
                ctx.violate("C18", "net_batch", "error names a failing element", format!("{} links, missing {:?}: {}", n_links, missing, plain.0));
            }
            'outer: for k in threads {
                for rep in 0..2 {
                    let Some(r) = run(Some(*k)) else { continue };
                    ctx.hit("fault.sched.pool_size");
                    ctx.hit("stat.pool_runs");
                    if r != plain {
                        ctx.violate("C18", "repeat", "same inputs, different thread-pool size => identical outputs", format!("Network::set_speed_set_for_train_type on {} links (no {:?} set on links {:?}): outside any pool -> {} / state {:x}; inside a pool of {k} thread(s), execution {rep} -> {} / state {:x}", n_links, tt, missing, plain.0, plain.1, r.0, r.1));
                        break 'outer;
                    }
                }
            }
            ctx.nontrivial = missing.len() >= 2;
            if missing.len() >= 2 {
                ctx.hit("probe.net_batch.two_failing_links");
            }
        }
        Case::HistoryRepeat { inner, before, seed, .. } => {
            ctx.class.push(format!("thr:history:{}", inner.world_name()));
            ctx.layer = "history-repeat";
            let fp = |c: &Ctx| (c.trace.0, c.viol.len(), c.sim_s.to_bits(), c.counters.get("stat.steps").copied().unwrap_or(0));
            let t = std::time::Duration::from_secs(90);
            match (crate::run_case_after(inner, None, *seed, None, t), crate::run_case_after(inner, Some(before), *seed, None, t), crate::run_case_after(inner, Some(inner), *seed, None, t)) {
                (Some(alone), Some(after), Some(twice)) => {
                    ctx.hit("fault.history.other_case_first");
                    ctx.hit("stat.history_triples");
                    ctx.sim_s += alone.sim_s;
                    ctx.trace.u(alone.trace.0);
                    ctx.nontrivial = alone.nontrivial;
                    if fp(&alone) != fp(&after) {
                        ctx.violate("C18", "repeat", "same inputs after another simulation on the same thread => identical outputs", format!("{}: alone vs after another case: trace {:x} vs {:x}, violations {} vs {}, simulated seconds {} vs {}", inner.world_name(), alone.trace.0, after.trace.0, alone.viol.len(), after.viol.len(), alone.sim_s, after.sim_s));
                    }
                    if fp(&alone) != fp(&twice) {
                        ctx.violate("C18", "repeat", "same inputs twice on the same thread => identical outputs", format!("{}: first vs second execution on one thread: trace {:x} vs {:x}, violations {} vs {}", inner.world_name(), alone.trace.0, twice.trace.0, alone.viol.len(), twice.viol.len()));
                    }
                }
                _ => ctx.hit("stat.history_run_hang"),
            }
        }
        Case::PoolRepeat { inner, threads, seed, .. } => {
            ctx.class.push(format!("thr:pool:{}:{:?}", inner.world_name(), threads));
            ctx.layer = "pool-repeat";
            let fp = |c: &Ctx| (c.trace.0, c.viol.len(), c.sim_s.to_bits(), c.counters.get("stat.steps").copied().unwrap_or(0));
            let t = std::time::Duration::from_secs(90);
            match crate::run_case_in(inner, *seed, None, t) {
                Some(plain) => {
                    ctx.sim_s += plain.sim_s;
                    ctx.trace.u(plain.trace.0);
                    ctx.nontrivial = plain.nontrivial;
                    for n in threads {
                        match crate::run_case_in(inner, *seed, Some(*n), t) {
                            Some(c) => {
                                ctx.hit("fault.sched.pool_size");
                                ctx.hit("stat.pool_runs");
                                if fp(&c) != fp(&plain) {
                                    ctx.violate("C18", "repeat", "same inputs, different thread-pool size => identical outputs", format!("{}: outside any pool vs inside a pool of {n} thread(s): trace {:x} vs {:x}, violations {} vs {}, simulated seconds {} vs {}", inner.world_name(), plain.trace.0, c.trace.0, plain.viol.len(), c.viol.len(), plain.sim_s, c.sim_s));
                                    break;
                                }
                            }
                            None => ctx.hit("stat.pool_run_hang"),
                        }
                    }
                }
                None => ctx.hit("stat.pool_run_hang"),
            }
        }
        Case::HashRepeat { inner, seed_a, seed_b, .. } => {
            ctx.class.push(format!("thr:hash:{}", inner.world_name()));
            ctx.layer = "hash-repeat";
            let run = |seed: u64| crate::run_case_seeded(inner, seed, std::time::Duration::from_secs(60));
            let (a1, a2, b) = (run(*seed_a), run(*seed_a), run(*seed_b));
            match (a1, a2, b) {
                (Some(a1), Some(a2), Some(b)) => {
                    ctx.hit("fault.hash.seed");
                    ctx.hit("stat.hash_triples");
                    ctx.sim_s += a1.sim_s;
                    let fp = |c: &Ctx| (c.trace.0, c.viol.len(), c.sim_s.to_bits(), c.counters.get("stat.steps").copied().unwrap_or(0));
                    if fp(&a1) != fp(&a2) {
                        ctx.violate("C18", "repeat", "same inputs, same hash keys => identical outputs", format!("{}: trace {:x} vs {:x}, violations {} vs {}", inner.world_name(), a1.trace.0, a2.trace.0, a1.viol.len(), a2.viol.len()));
                    }
                    if fp(&a1) != fp(&b) {
                        ctx.violate("C18", "repeat", "same inputs, different hash-map iteration order => identical outputs", format!("{}: trace {:x} vs {:x}, violations {} vs {}, simulated seconds {} vs {}", inner.world_name(), a1.trace.0, b.trace.0, a1.viol.len(), b.viol.len(), a1.sim_s, b.sim_s));
                    }
                    ctx.trace.u(a1.trace.0);
                    ctx.nontrivial = a1.nontrivial;
                }
                _ => ctx.hit("stat.hash_triple_hang"),
            }
        }
    }
}

fn net_batch_network(n_links: usize, missing: &[usize], tt: altrios_core::track::TrainType) -> altrios_core::track::Network {
    use altrios_core::track::*;
    use altrios_core::uc;
    let mut v = vec![Link::default()];
    for i in 1..=n_links {
        let len = 100.0 + (i % 7) as f64 * 50.0;
        let mk = |f: f64| SpeedSet { speed_limits: vec![SpeedLimit { offset_start: 0.0 * uc::M, offset_end: len * uc::M, speed: (10.0 + (i % 5) as f64) * f * uc::MPS }], speed_params: vec![], is_head_end: false };
        let mut m = std::collections::HashMap::new();
        for (t, f) in [(TrainType::Freight, 1.0), (TrainType::Passenger, 2.0), (TrainType::Intermodal, 1.5)] {
            if !(t == tt && missing.contains(&i)) {
                m.insert(t, mk(f));
            }
        }
        v.push(Link {
            idx_curr: LinkIdx::new(i as u32),
            idx_next: LinkIdx::new(if i < n_links { i as u32 + 1 } else { 0 }),
            idx_prev: LinkIdx::new(i as u32 - 1),
            length: len * uc::M,
            elevs: vec![Elev { offset: 0.0 * uc::M, elev: 0.0 * uc::M }, Elev { offset: len * uc::M, elev: 0.0 * uc::M }],
            speed_sets: m,
            speed_set: None,
            ..Default::default()
        });
    }
    Network(v)
}

pub fn shrink(case: &Case) -> Vec<Case> {
    let mut out = vec![];
    match case {
        Case::Schedules { sims, workers, sched, iters, sched_seed, hash_seed } => {
            if sims.len() > 1 {
                for k in 0..sims.len() {
                    let mut s2 = sims.clone();
                    s2.remove(k);
                    out.push(Case::Schedules { sims: s2, workers: *workers, sched: sched.clone(), iters: *iters, sched_seed: *sched_seed, hash_seed: *hash_seed });
                }
            }
            if *workers > 2 {
                out.push(Case::Schedules { sims: sims.clone(), workers: 2, sched: sched.clone(), iters: *iters, sched_seed: *sched_seed, hash_seed: *hash_seed });
            }
            for k in 0..sims.len() {
                if sims[k].n_steps > 8 {
                    let mut s2 = sims.clone();
                    s2[k].n_steps /= 2;
                    if let Some(f) = s2[k].fail_at {
                        s2[k].fail_at = Some(f.min(s2[k].n_steps));
                    }
                    out.push(Case::Schedules { sims: s2, workers: *workers, sched: sched.clone(), iters: *iters, sched_seed: *sched_seed, hash_seed: *hash_seed });
                }
            }
        }
        Case::HashRepeat { inner, seed_a, seed_b, hash_seed } => {
            let dummy = Violation { property: "".into(), monitor: "".into(), clause: "".into(), layer: "".into(), event: 0, detail: "".into(), sig: Sig::new() };
            for c in cases::shrink(inner, &dummy) {
                out.push(Case::HashRepeat { inner: Box::new(c), seed_a: *seed_a, seed_b: *seed_b, hash_seed: *hash_seed });
            }
        }
        Case::HistoryRepeat { inner, before, seed, hash_seed } => {
            let dummy = Violation { property: "".into(), monitor: "".into(), clause: "".into(), layer: "".into(), event: 0, detail: "".into(), sig: Sig::new() };
            for c in cases::shrink(before, &dummy) {
                out.push(Case::HistoryRepeat { inner: inner.clone(), before: Box::new(c), seed: *seed, hash_seed: *hash_seed });
            }
            for c in cases::shrink(inner, &dummy) {
                out.push(Case::HistoryRepeat { inner: Box::new(c), before: before.clone(), seed: *seed, hash_seed: *hash_seed });
            }
        }
        Case::PoolRepeat { inner, threads, seed, hash_seed } => {
            let dummy = Violation { property: "".into(), monitor: "".into(), clause: "".into(), layer: "".into(), event: 0, detail: "".into(), sig: Sig::new() };
            if threads.len() > 2 {
                out.push(Case::PoolRepeat { inner: inner.clone(), threads: vec![threads[0], threads[1]], seed: *seed, hash_seed: *hash_seed });
                out.push(Case::PoolRepeat { inner: inner.clone(), threads: vec![threads[0], *threads.last().unwrap()], seed: *seed, hash_seed: *hash_seed });
            }
            for c in cases::shrink(inner, &dummy) {
                out.push(Case::PoolRepeat { inner: Box::new(c), threads: threads.clone(), seed: *seed, hash_seed: *hash_seed });
            }
        }
        Case::NetBatch { n_links, missing, type_bits, threads, hash_seed } => {
            if threads.len() > 1 {
                for k in 0..threads.len() {
                    let mut t = threads.clone();
                    t.remove(k);
                    out.push(Case::NetBatch { n_links: *n_links, missing: missing.clone(), type_bits: *type_bits, threads: t, hash_seed: *hash_seed });
                }
            }
            if missing.len() > 2 {
                for k in 0..missing.len() {
                    let mut m = missing.clone();
                    m.remove(k);
                    out.push(Case::NetBatch { n_links: *n_links, missing: m, type_bits: *type_bits, threads: threads.clone(), hash_seed: *hash_seed });
                }
            }
        }
        Case::Rayon { sims, threads, hash_seed } => {
            if sims.len() > 1 {
                for k in 0..sims.len() {
                    let mut s2 = sims.clone();
                    s2.remove(k);
                    out.push(Case::Rayon { sims: s2, threads: *threads, hash_seed: *hash_seed });
                }
            }
        }
    }
    out
}
