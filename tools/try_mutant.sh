#!/bin/sh
# usage: tools/try_mutant.sh <patch.diff> <Cxx> [<Cyy> ...]
# Applies a property-breaking patch to /repo's working tree, runs the named quick checks, and
# restores /repo straight afterwards. Prints one line per check: CAUGHT / MISSED / ERROR.
patch="$1"; shift
cd /verif || exit 2
if ! git -C /repo diff --quiet; then echo "/repo has uncommitted changes"; exit 2; fi
git -C /repo apply "$patch" || { echo "patch does not apply"; exit 2; }
trap 'git -C /repo checkout -- . ; git -C /repo clean -fdq rust/altrios-core/src rust/altrios-core/tests 2>/dev/null' EXIT
for p in "$@"; do
  out=$(./check "$p" quick 2>&1); rc=$?
  case $rc in
    1) echo "CAUGHT $p: $(echo "$out" | grep -A1 '^VIOLATION' | head -2 | tail -1 | cut -c1-220)";;
    0) echo "MISSED $p: $(echo "$out" | tail -1)";;
    *) echo "ERROR  $p rc=$rc: $(echo "$out" | tail -3)";;
  esac
done
