#!/usr/bin/env python3
"""Print the prompt given to an independent sub-agent asked to break one property.
Only the property text and a scratch worktree path go in; nothing from /verif."""
import json, sys
pid, d = sys.argv[1], sys.argv[2]
avoid = sys.argv[3] if len(sys.argv) > 3 else None
p = [json.loads(l) for l in open('/verif/properties.jsonl') if json.loads(l)['id'] == pid][0]
print(f"""You are working on a scratch git worktree of the NREL/altrios repository at {d} (ALTRIOS: a rail simulator; the Rust core is in {d}/rust/altrios-core). Work ONLY inside {d}. Do not read, list or modify anything under /repo or /verif.

Here is a semantic property that the code base is supposed to satisfy:

TITLE: {p['title']}
STATEMENT: {p['statement']}
QUANTIFIED OVER: {p['quantifier']['text']}
RELEVANT FILES: {', '.join(p['anchors']['files'])}

YOUR TASK: write a change to the altrios *source code* (not its tests) that BREAKS this property while (a) still compiling and (b) still passing the complete existing test suite, and give a demonstration that fails with your change and passes without it.

Requirements for the change:
- It must be realistic: the kind of slip, refactor mistake or well-meant "optimisation" that could survive code review (a wrong sign/index/comparison, a field not reset/restored/serialised, a cache not invalidated, state shared where it should not be, an ordering changed, a boundary case mishandled ...). Not sabotage code, no `if input == magic`.
- It must need something SPECIFIC to manifest - a particular interleaving, a save/reload (crash) at a particular point, a multi-step sequence of operations, an unusual-but-legal input or configuration, or two cooperating sites that each look fine alone - NOT something that ordinary use (the default objects / default traces / the shipped example networks used by the existing tests) would expose at once.
- Keep it small (a few lines, one to three sites). Only touch files under rust/altrios-core/src (or altrios-proc-macros/src).{(' Another engineer is already changing ' + avoid + ' - choose a different file.') if avoid else ''}
- The existing tests must still pass, unedited. The test command is:
    cd {d}/rust && cargo nextest run --workspace --no-fail-fast --tool-config-file pb:/w/lib/nextest.toml --profile pb --test-threads 8 --offline
  (102 tests; the sandbox has no network, always pass --offline; a pre-seeded target dir exists at {d}/rust/target so only workspace crates rebuild, ~1-2 min.)

The demonstration: a NEW Rust test (e.g. a new file/module you add under rust/altrios-core, or a `#[test]` appended in a new `#[cfg(test)] mod` ) or a small program that FAILS with your change applied and PASSES on the unchanged code. Public API hints: objects can be built with `Default::default()`, `Locomotive::default_battery_electric_loco()`, `Consist::new(..)`, `TrainSimBuilder`, `Network::from_file`, serde `from_yaml/from_json/to_yaml/to_json/to_bincode/from_bincode` via the `SerdeAPI` trait; look at the existing tests for idioms. Builders named `build_*_loco` exist only under the `pyo3` feature, which is not enabled - do not rely on them.

Deliver, in {d}/out/ :
- patch.diff : `git diff` of the SOURCE change only (without the demonstration), made from {d} so that `git apply patch.diff` works from the repository root on a clean checkout of the same commit. 
- demo.diff : a second diff that adds only the demonstration (test or program); it must apply on a clean checkout both with and without patch.diff.
- meta.json : {{"property": "{pid}", "summary": "<one sentence: what the change does>", "needs_to_manifest": "<what specific input / sequence / fault / schedule exposes it>", "demo_cmd": "<exact command, run from {d}/rust, that runs just the demonstration>", "files_touched": [...]}}
Before you finish, VERIFY all of the following yourself and report the evidence in your final message: (1) with patch.diff + demo.diff applied: full suite passes (102 passed) and the demo fails; (2) with only demo.diff applied: the demo passes. Leave the worktree with BOTH diffs applied when you finish. Do not commit.
If after a serious attempt you cannot find a change satisfying all constraints, say so and explain why instead of delivering something that ordinary tests would catch.""")
