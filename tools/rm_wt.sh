#!/bin/sh
# usage: tools/rm_wt.sh <name>
git -C /repo worktree remove --force "/tmp/wt/$1" 2>/dev/null; rm -rf "/tmp/wt/$1"; git -C /repo worktree prune
