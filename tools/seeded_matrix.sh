#!/bin/sh
# usage: tools/seeded_matrix.sh [<seed-id> ...]   - re-run every kept property-breaking change (or the named ones)
# against the quick check of its property, in a scratch worktree (leaves /repo alone). Writes seeded/MATRIX.txt.
cd /verif || exit 2
ids="$@"; [ -z "$ids" ] && ids=$(ls seeded | grep -E '^C[0-9]+-' )
out=seeded/MATRIX.txt; [ $# -eq 0 ] && : > $out
for id in $ids; do
  p=$(python3 -c "import json;print(json.load(open('seeded/$id/meta.json'))['property'])")
  extra=$(python3 -c "import json;print(' '.join(json.load(open('seeded/$id/meta.json')).get('also_check',[])))")
  r=$(tools/try_mutant_scratch.sh /verif/seeded/$id/patch.diff $p $extra 2>&1 | grep -E '^(CAUGHT|MISSED|ERROR)' | cut -c1-200 | tr '\n' ';')
  echo "$id: $r" | tee -a $out
done
rm -rf /var/tmp/altsim-mut/replays
