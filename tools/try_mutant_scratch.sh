#!/bin/sh
# usage: tools/try_mutant_scratch.sh <patch.diff> <Cxx> [<Cyy> ...]
# Like try_mutant.sh but leaves /repo alone: the patch goes onto the scratch worktree /tmp/vw (reset to
# /repo's HEAD first) and a copy of the harness under /var/tmp/altsim-mut is built against that worktree.
# For exploration while long runs use /repo; a kept change is confirmed once more with try_mutant.sh.
patch="$1"; shift
# SCRATCH_ID=<n> selects a private pair of scratch directories (parallel shards of seeded_matrix.sh)
W=/tmp/vw${SCRATCH_ID:-}; M=/var/tmp/altsim-mut${SCRATCH_ID:-}
[ -d $W ] || git -C /repo worktree add -q --detach $W HEAD || exit 2
head=$(git -C /repo rev-parse HEAD)
( cd $W && git checkout -q -f --detach "$head" && git clean -fdq rust/altrios-core/src rust/altrios-core/tests ) || exit 2
git -C $W apply "$patch" || { echo "patch does not apply"; exit 2; }
mkdir -p $M
rsync -a --delete --exclude target /verif/altsim/ $M/altsim/
sed -i "s|path = \"/repo/rust/altrios-core\"|path = \"$W/rust/altrios-core\"|" $M/altsim/Cargo.toml
rm -rf $M/known_findings $M/replays; cp -r /verif/known_findings $M/; cp /verif/known_findings.json $M/
if ! ( cd $M/altsim && CARGO_NET_OFFLINE=true cargo build --offline --quiet 2>$M/build.log ); then
  grep -E "^error" -A8 $M/build.log | head -40; echo "ERROR  build failed (harness or patched repo does not compile)"
  ( cd $W && git checkout -q -f --detach "$head" && git clean -fdq rust/altrios-core/src rust/altrios-core/tests ); exit 2
fi
for p in "$@"; do
  out=$(ALTSIM_ROOT=$M $M/altsim/target/debug/altsim check "$p" --tier quick 2>&1); rc=$?
  case $rc in
    1) echo "CAUGHT $p: $(echo "$out" | grep -A1 '^VIOLATION' | head -2 | tail -1 | cut -c1-260)";;
    0) echo "MISSED $p: $(echo "$out" | grep -m1 runs=)";;
    *) echo "ERROR  $p rc=$rc: $(echo "$out" | tail -3)";;
  esac
done
( cd $W && git checkout -q -f --detach "$head" && git clean -fdq rust/altrios-core/src rust/altrios-core/tests )
