#!/bin/sh
# usage: tools/seeds.sh <tier> <seed> [<seed> ...]   - every claimed check under other VERIF_SEED values
# (alarm on the unchanged tree must be zero for any seed). Evidence files are rewritten by these runs:
# re-run the checks with the default seed afterwards before committing evidence.
tier="$1"; shift
cd /verif || exit 2
for seed in "$@"; do
  for p in C01 C02 C03 C04 C05 C06 C07 C08 C09 C10 C11 C12 C13 C14 C15 C16 C17 C18 C19 C20; do
    VERIF_SEED=$seed ./check $p $tier > /var/tmp/s${seed}_${tier}_$p.log 2>&1; rc=$?
    echo "seed $seed $tier $p rc=$rc $(grep -c '^VIOLATION' /var/tmp/s${seed}_${tier}_$p.log) viol $(grep -m1 -o 'wall=[0-9.]*s' /var/tmp/s${seed}_${tier}_$p.log)"
  done
done
