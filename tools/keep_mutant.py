#!/usr/bin/env python3
"""usage: keep_mutant.py <seed-id> <agent out dir> <caught-by text>
Copies a confirmed property-breaking change into /verif/seeded/<seed-id>/ with meta.json."""
import json, sys, shutil, os, subprocess
sid, out, caught = sys.argv[1], sys.argv[2], sys.argv[3]
d = f"/verif/seeded/{sid}"
os.makedirs(d, exist_ok=True)
shutil.copy(f"{out}/patch.diff", f"{d}/patch.diff")
shutil.copy(f"{out}/demo.diff", f"{d}/demo.diff")
m = json.load(open(f"{out}/meta.json"))
def tail(p):
    try: return [l.strip() for l in open(p, errors='replace') if 'Summary' in l or 'test result' in l][-1]
    except Exception: return None
meta = {
    "id": sid,
    "property": m["property"],
    "origin": "independent sub-agent given only the property text and a scratch worktree",
    "summary": m.get("summary"),
    "needs_to_manifest": m.get("needs_to_manifest"),
    "files_touched": m.get("files_touched"),
    "demo_cmd": m.get("demo_cmd"),
    "base_commit": subprocess.run(["git", "-C", "/repo", "rev-parse", "HEAD"], capture_output=True, text=True).stdout.strip(),
    "what_i_ran": {
        "confirmation": "tools/verify_mutant.sh in a scratch worktree at base_commit: demo.diff alone -> demo passes; patch.diff + demo.diff -> pinned suite 102 passed and demo fails",
        "suite_with_patch": tail(f"{out}/verify_suite_patch.log"),
        "demo_without_patch": tail(f"{out}/verify_demo_nopatch.log"),
        "demo_with_patch": tail(f"{out}/verify_demo_patch.log"),
        "check": f"tools/try_mutant.sh seeded/{sid}/patch.diff {m['property']}",
        "check_result": caught,
    },
}
json.dump(meta, open(f"{d}/meta.json", "w"), indent=1)
print("kept", d)
