#!/bin/sh
# usage: tools/sweep.sh <tier> <runs-multiplier-or-0> <jobs> <seed> <Cxx> ...   (meant for `vp run`)
# Copies the already built altsim binary (built from /repo's clean HEAD) so later edits to /repo do not
# matter, then runs the named checks one after another with ALTSIM_ROOT = cwd. runs = multiplier x quick
# budget (0 = the tier's own budget). One summary line per check; logs under ./sweep_logs/.
tier="$1"; mult="$2"; jobs="$3"; seed="$4"; shift 4
here=$(pwd); mkdir -p sweep_logs
cp /verif/altsim/target/debug/altsim ./altsim.bin || exit 2
for p in "$@"; do
  extra=""
  if [ "$mult" != 0 ]; then
    q=$(grep -o "id: \"$p\"[^}]*quick_runs: [0-9_]*" altsim/src/cases.rs | grep -o "quick_runs: [0-9_]*" | tr -d '_' | cut -d' ' -f2)
    extra="--runs $((q * mult))"
  fi
  s=$(date +%s)
  VERIF_SEED=$seed ALTSIM_ROOT=$here ./altsim.bin check $p --tier $tier $extra --jobs $jobs > sweep_logs/$p.$tier.s$seed.log 2>&1; rc=$?
  e=$(date +%s)
  echo "SWEEP $p tier=$tier seed=$seed rc=$rc t=$((e-s))s viol=$(grep -c '^VIOLATION' sweep_logs/$p.$tier.s$seed.log) $(grep -m1 -o 'runs=[0-9]* nontrivial=[0-9]*' sweep_logs/$p.$tier.s$seed.log)"
  grep '^VIOLATION' -A1 sweep_logs/$p.$tier.s$seed.log | cut -c1-400
done
