#!/usr/bin/env python3
"""Regenerates /verif/MANIFEST.json from the table below (single source of truth for the interface)."""
import json, subprocess

ROOT = "/verif"
hooks_commits = subprocess.run(["git", "-C", "/repo", "log", "--format=%H %s", "--grep=^verif-hooks:"], capture_output=True, text=True).stdout.strip().splitlines()
hooks_commits = [l.split()[0] for l in hooks_commits][::-1]

TECH = "deterministic simulation with fault injection (seeded search over schedules / fault sequences, reference-model oracles, minimised replay)"

# id -> (engine/world, category, claim text, level note)
CLAIMED = {
    "C01": ("pt+cmp", "exploration",
            "Seeded simulated runs of real Locomotive/Consist objects (and, in 6 % of the runs, of the battery component driven alone with charge / discharge buffers - world cmp; one run in seven uses steps 1.5-12 x coarser than the derating bound, so that an accepted step carries a battery across its SOC window): the simulator owns the clock (dt sequence), picks each demand from the limits published in the same tick, crashes and restores the object (yaml/json/bincode, string and faulty-reader channels) between ticks, and an independent energy ledger (its accumulators are never restored) is compared after every accepted tick, per step and cumulatively, incl. SOC and consist sums; the shipped walk() loops are run over the accepted demands and must reproduce the trajectory bit for bit. Sampling, not proof: a clean batch is evidence.",
            "Trusted: the reference ledger (~150 lines), 1e-9 relative tolerance, generator domain of DESIGN 2.3; HybridLoco and catenary are outside the property."),
    "C08": ("pt+cmp", "exploration",
            "Same simulated runs as C01 (incl. the battery driven alone, world cmp) with engine on/off patterns, regeneration, light regeneration around the aux level, map extremes and out-of-grid battery temperatures; second-law inequalities per tick on reported and on effective (out/in) efficiencies, monotone cumulative fuel/loss/dyn-brake energies across every prefix and across every crash/restore (previous values kept by the reference, not by the object).",
            "Trusted: inequality tolerance 1e-9 relative + 1e-6 W; map values in (0,1]."),
    "C09": ("pt+cmp", "exploration",
            "Closed-loop adversarial client (85 % of the runs on locomotives / consists, 15 % on the battery component driven alone - world cmp - because charge / discharge buffers, which the statement quantifies over, are only reachable through the component API: the locomotive models pass None): each tick the driver reads the limits just published and asks for exactly / just below / just above them, rides the transient limit upward, parks SOC in the derating ramps, retries lower after a refusal, and issues over-limit requests that must be refused; crash/restore between ticks because the transient limit depends on restored previous shaft power (the reference keeps its own copy).",
            "Trusted: the code's own 1e-3 acceptance tolerance is part of the oracle; dt bounded by the largest step for which linear derating can hold the SOC window (reported in evidence)."),
    "C10": ("pt", "exploration",
            "Consists of 1-8 generated units of mixed kind, rating, SOC and order under both shipped policies, demands from full dynamic braking to full traction, asymmetric warm-up histories, depleted/full batteries among healthy units; split reference evaluated on every accepted consist tick; panics in the split code are violations.",
            "Trusted: split reference (~60 lines); conservation tolerance 1e-8 relative (the code's own)."),
    "C19": ("pt+trn", "exploration",
            "Locomotive, consist (incl. the shipped hybrid unit), set-speed and speed-limited simulations (shipped walk, timed-path protocol, simulator steps) with save intervals None/1/n, interval changes mid-run, rejected ticks, runs ending with an error, crash/restore; after every event the reference (own step counter, own expected length) is compared with every state.i, history length, save_interval and i-column in the object tree (train, friction brake, consist, units, components).",
            "Trusted: alignment reference (~40 lines)."),
}

CLAIMED.update({
    "C02": ("trk", "exploration",
            "A PathTpc is grown over generated networks by a seeded history of extend calls (every way of partitioning the route, empty extensions, reload of the half-built path in yaml/bincode/json between two extensions); after every extension the enforced profile is compared, at the midpoint of every interval between breakpoints and at every breakpoint from the right, with the pointwise minimum of the restrictions read from the network (tail-end extension by train length, gating by train parameters, per-train-type sets re-implemented independently); a 0.04 % share of the runs judges the path of a moving train simulation the same way (see C13). Operation history only: there is no fault in this property beyond the reload (DESIGN 5).",
            "Trusted: the pointwise-minimum reference (~60 lines); exact comparison (the code only copies and compares speeds)."),
    "C13": ("trk", "exploration",
            "Same runs as C02 with equality instead of <=, plus canonical form (sorted, no equal-valued neighbours, first point at the path start); generator dense in restrictions nested inside another's extent, ending between two existing points, zero-length and duplicate-bound restrictions. 0.04 % of the runs (C02 likewise) are speed-limited train simulations of world trn whose own path - extended while the train moves, train parameters derived by TrainConfig from a car list that may name car types with zero cars, restriction sets gated at the train's own axle count - is judged by the same reference after every extend_path; 12 % of the cases drop the train's type from one route link's per-type map of restriction sets: the extension must be refused, not given another type's restrictions. Operation history only (DESIGN 5).",
            "Trusted: as C02; a restriction covers [start, end)."),
    "C06": ("trk", "exploration",
            "Differential, bit-exact: every seeded partition of a route into extend calls (with empty extensions and yaml/bincode reloads in between) yields a PathTpc equal to the one-call build; reference: link points at cumulative lengths, elevation at every breakpoint and 3 interior positions per segment equal to the walk over the route's own elevation points, grades = slopes, cumulative curve resistance = documented three-branch formula, catenary limits shifted, count bookkeeping; non-contiguous / unreal extensions must be refused; panics are violations. Operation history only (DESIGN 5).",
            "Trusted: geometry reference (~120 lines), 1e-9 relative; nothing is promised about a path after a refused extension."),
    "C16": ("val", "fault_enumeration",
            "For every generated valid network every rule of the statement is broken in isolation at every link where that is expressible (63 rule-breaking kinds incl. out-of-range references, references dropped on one side only, NaN / negative / zero values), 13 rule-keeping edits are applied the same way, and the verdict of validate() - and on a seeded sample of from_yaml / from_json / from_reader under short reads, EINTR, hard errors and early EOF / from_file on real files / from_file on a hand-written legacy layout - is compared with an independent reference validator (accepted <=> consistent); a panic is a violation and does not stop the enumeration.",
            "Trusted: reference validator (~170 lines) and its reading of 'well-formed and non-overlapping' (DESIGN C16); the reference is itself checked against each mutation's label and a disagreement is a harness error, not a verdict."),
})

CLAIMED.update({
    "C03": ("trn", "exploration",
            "Speed-limited trains built through TrainSimBuilder on generated networks, driven by the simulator's own step loop with a simulated dispatcher->train authority channel (extensions delivered early, just in time, late - the train must stand at the end of authority and restart -, in batches, preceded by empty extensions), by the protocol of walk_timed_path on generated timed paths (ties, out-of-order times), and whole-path; crash/restore of the whole simulation between steps; dt in {0.5, 1, 2} s; a fifth of the cases carry restriction sets gated by the train's axle count with thresholds at / one off the train's own value (every compare type). Per executed step: speed >= 0, <= limit in force, <= posted restriction at the front (pointwise-minimum reference), target <= limit, inside the path; end: Ok => at rest in the stopping window, Err => names a cause, panic = violation; bounded liveness: in the final walk a train left at rest with a zero target outside the stopping window is handed to the shipped walk(), which must end the run with a descriptive error (an endless loop is caught by the watchdog), and a run must arrive within 4 x remaining metres + 3000 steps after the last delivery and the last fault. The shipped walk()/walk_timed_path() are then run on the same scenario and must reproduce the driven run bit for bit.",
            "Trusted: pointwise-minimum reference; grade bound 0.8 %; liveness bounds as stated. Friction-brake ramp-up time 0 s (builder) on most and 5-60 s on 12 % of the cases; one open finding in the latter family (C03-ramping-friction-brake-cannot-hold-the-limit-at-once). Light trains that stop short of the window end with the descriptive error introduced by the repair of finding C03-stops-short-of-window-on-final-braking-curve."),
    "C07": ("trn", "exploration",
            "Set-speed and speed-limited runs over routes mixing very short and very long links with trains shorter and longer than a link, so the cached front/rear indices cross several points per step, sit on one point, and are re-based by path extensions mid-run; crash/restore between steps (the indices are serialised state); forces recomputed per executed step from the network (elevation and curve walks over the route's own points) and from coefficients re-aggregated from the car list.",
            "Trusted: resistance reference (~80 lines), 1e-9 relative + 1e-6 N; force at step k belongs to position/speed of step k-1; library gravity constant."),
    "C11": ("trn", "exploration",
            "Same runs; per executed step train wheel power = consist delivered power and the cumulative wheel energies (net, positive, negative) agree between train and consist; at the end of every run that ended Ok consist totals = sums over locomotives and the trip-level getters = totals x the documented annualisation factor (simulation_days varied); crash/restore re-initialises the three nested levels separately.",
            "Trusted: 1e-9 relative (1e-8 on instantaneous power)."),
    "C12": ("trn", "exploration",
            "Same runs incl. links much shorter than one step of travel, user-supplied initial front positions beyond the train length (20 % of the cases), irregular set-speed time stamps, stops at the end of authority and restarts, crash/restore; kinematic reference per executed step (time, front advance = dt x mean speed, rear = front - length, total distance, front segment / in-segment offset).",
            "Trusted: kinematic reference (~50 lines); offset tolerance 1e-5 m."),
    "C14": ("trn", "exploration",
            "Set-speed runs with generated non-negative traces with irregular time stamps (dt jumps, plateaus, stops, accelerations and brakings beyond what the consist can deliver so both clips bind), driven by the shipped walk() and by simulator steps with crash/restore and interval changes; per step time/speed = trace, pwr_accel, pwr_res, wheel power = clip(inertia + resistance) with the upper clip computed from published consist state only and the lower clip from the sum of the units' drivetrain ratings (not from the consist's derived state field), energies accumulate that power x the trace's own dt; 8 % of the traces start at a time datum of their own (the run must follow the trace's stamps); one train in ten has its consist completed after construction through Consist::set_loco_vec, one in eight lists a car type with zero cars.",
            "Trusted: power reference (~50 lines), 1e-9 relative; upper clip includes the published rate limit."),
})

CLAIMED.update({
    "C04": ("dsp", "exploration",
            "The real dispatcher (own scheduler kept) run on generated corridors (1-9 sidings of 1-3 links per track, 3-270 km, sidings that fit and do not fit, lockout declarations) with 1-10 generated trains in both directions and departure times with deliberate ties; every scenario first runs the real make_est_times per train. The observer hook exposes link_disp_auths / links_blocked / TrainDisp state after every train move and before returning; on EVERY snapshot: disjoint occupancy windows [first-seen arrive_entry, clear_exit] of different trains on a segment and its reverse and on mutually exclusive segments, headway and ordering of followers, front behind the rear of the train ahead, blocked-link table consistent with the trains' own lists; on the returned plans the black-box necessary condition on front-occupancy intervals. Headway is demanded between consecutive users of a physical segment (a train of the opposite direction in between ends the 'following' relation); a stale entry in the blocked-link table that only over-blocks is a reach probe, an entry that under-blocks is a violation.",
            "Trusted: occupancy reference (~120 lines), 1e-6 s / 1e-6 m slack; calibrated against the unchanged tree (650 + 20000 scenarios). Sidings (and some mains) are built from several links, as in the repository's own networks: the dispatcher lets a train wait only where it arrives on a link leading into a converging switch, so single-link sidings serialise opposing traffic completely (first version of this world; probe snapshots_with_opposing_trains_en_route was 0) - with multi-link sidings about a third of all snapshots have opposing trains on the line. `altsim taconite` runs the same observer on the shipped Taconite network."),
    "C05": ("dsp", "exploration",
            "Same runs plus degenerate ones (a train whose destination cannot be reached must be an error with a cause); Ok => one plan per train, starts on an origin at or after departure, ends on a destination, contiguous, times non-decreasing, never faster than the train's own free-running times (read through the final TrainDisp view against its EstTimeNet), plan = dispatcher's final path; Err => names trains; panics (incl. the repository's debug assertions), unsafe-precondition aborts (std checks live), hangs (200 k observer calls, wall-clock watchdog) are violations.",
            "Trusted: plan reference (~90 lines); memory safety decided at the level 'no out-of-range unchecked access on any explored history'. Miri / ASan not run (DESIGN 6)."),
    "C15": ("dsp", "exploration",
            "Every EstTimeNet built in the dsp scenarios (0-9 alternative sidings, both directions): mutual link consistency, no dead end / cycle, 24 seeded start-to-end walks per graph (contiguous route origin -> destination, cleared after entered, in entry order), finite non-negative times and durations, time_sched = primary predecessor + duration and <= along alternates; yaml reload equal. Weak fit: the graph is a pure function of (train, network); checked where it is handed to the dispatcher (DESIGN 5).",
            "Trusted: graph reference (~150 lines). One open finding (negative time_sched on alternative branches); the structural self-check panics on routes shorter than the 5-mile look-ahead were repaired."),
})

CLAIMED.update({
    "C18": ("thr", "exploration",
            "(a) LocomotiveSimulationVec::walk(parallelize=true) through the executor seam under shuttle: batches of 1-12 generated simulations (some failing at a seeded step), 1-16 simulated workers claiming from a shared queue, every simulation step a scheduling point, cancellation after an error; seeded Random and PCT (depth 2-4) schedulers, 24 / 60 schedules per case; oracle bit-exact: every element = its own serial result (or untouched after an error), batch = serial batch, an error names a failing element, inputs unchanged. (b) cases of the worlds trn / dsp / trk / val executed under simulated RandomState keys A, A, B: identical outputs (trace hash over every observed state). (c) the real rayon branch in local pools of 1, 2, 4, 16 threads against the same oracle (observation of uncontrolled threads). (d) PoolRepeat: cases of the worlds pt / trn / dsp executed outside any pool and inside private rayon pools of 1, 2-4 and 5-16 threads (whatever the library parallelises internally then splits according to that pool size): identical traces. (e) HistoryRepeat: a case executed on a fresh thread, on a thread that has just executed a different case of the same world, and twice on one thread: identical traces (hidden state in statics, thread-locals or caches keyed too coarsely). (f) NetBatch: the whole-network batch operation Network::set_speed_set_for_train_type on chains of 40-40000 links of which 0-5 cannot be converted (two of them either side of a point at which a divide-and-conquer executor would split the sequence), executed outside any pool and twice inside private rayon pools of 1, 2-4, 5-16 threads: result, error text and the state the network is left in must be identical (observation of uncontrolled threads, like (c)).",
            "Trusted: the executor stub's fidelity to rayon's try_for_each contract (cross-checked by (c)); a failure replays from (case, scheduler seed, iteration count) because shuttle's seeded schedulers are deterministic."),
})

CLAIMED.update({
    "C17": ("io+pt", "fault_enumeration",
            "Objects of every storable kind (components, locomotives of each type incl. the shipped hybrid unit, consists, locomotive / consist / set-speed / speed-limited simulations, networks, paths, defaults) are built by the generators of the other worlds, run for a seeded number of steps (mid-run, before the first braking step, after a refused step, after the run ended) and stored / reloaded through the simulated storage layer: yaml / json / bincode x string, reader (short reads, EINTR), file channels; faults at EVERY byte offset class (hard error, early EOF, torn prefix at a seeded set of offsets incl. first, last-1, inside a multi-byte scalar) must give an error, never a wrong object or panic. Oracles: reload succeeds; canonical rendering (maps sorted) equal; a second round trip changes nothing; and, for every kind that steps, EVERY step index of a short run is used as a crash point in every format and the resumed run must finish bit-identical with the uninterrupted twin.",
            "Trusted: canonical rendering through the crate's own yaml serialiser (field-for-field, bit-exact floats); table of skippable fields used to recognise the open bincode finding. Three open findings (bincode + skipped fields, bincode + Location, JSON + non-finite floats)."),
})

CLAIMED.update({
    "C20": ("mass+trn", "exploration",
            "Operation histories only (DESIGN 5: there is no schedule or fault in this property beyond the reload): seeded sequences of 1-12 set_mass / set_mu / set_force_max calls with every side-effect option on fuel converters, generators, batteries, locomotives (conventional and battery-electric, with and without redundant baseline / ballast / component mass data in the file, with a deliberately wrong force_max in the file) and consists of 1-4 units, interleaved with save / reload in yaml and json (init() re-checks consistency). A reference model of the documented algebra (what each option states; None = must be rejected) is stepped alongside: after every accepted update mass(), derived_mass(), mu(), force_max() and the rating are compared, a rejected update must leave every getter unchanged, an update the reference can honour must not be refused, consist mass / force_max = sums (mixed known / unknown unit masses must be refused). 5 % of the runs are train simulations (world trn): static train mass = cars (or override) + consist.",
            "Trusted: the algebra reference (~170 lines) and its reading of 'known' = reported by mass() (stored or derived); library gravity constant; relative tolerance 1e-9 (the code's own almost_eq is 1e-8)."),
})

NOT_YET = {
    "C02": "check not built yet (planned in world trk, DESIGN 4)",
    "C03": "check not built yet (planned in world trn, DESIGN 4)",
    "C04": "check not built yet (planned in world dsp, DESIGN 4)",
    "C05": "check not built yet (planned in world dsp, DESIGN 4)",
    "C06": "check not built yet (planned in world trk, DESIGN 4)",
    "C07": "check not built yet (planned in world trn, DESIGN 4)",
    "C11": "check not built yet (planned in world trn, DESIGN 4)",
    "C12": "check not built yet (planned in world trn, DESIGN 4)",
    "C13": "check not built yet (planned in world trk, DESIGN 4)",
    "C14": "check not built yet (planned in world trn, DESIGN 4)",
    "C15": "check not built yet (weak fit for this technique: pure function of its input, DESIGN 5)",
    "C16": "check not built yet (planned in worlds trk/io, DESIGN 4)",
    "C17": "check not built yet (planned in world io, DESIGN 4)",
    "C18": "check not built yet (planned in world thr, DESIGN 4)",
    "C20": "check not built yet (planned in world pt, DESIGN 4)",
}

checks = []
for pid, (world, cat, text, note) in sorted(CLAIMED.items()):
    checks.append({
        "property_id": pid,
        "quick_cmd": f"./check {pid} quick",
        "thorough_cmd": f"./check {pid} thorough",
        "evidence_file": f"{ROOT}/evidence/{pid}.json",
        "replay_cmd_template": "./altsim/target/debug/altsim replay {path}",
        "engine": f"altsim/{world}",
        "level_claimed": {"category": cat, "text": text, "design_ref": f"DESIGN.md section 4, {pid}"},
        "level_note": note,
        "technique": TECH,
    })

worlds = {}
for pid, (world, *_rest) in CLAIMED.items():
    worlds.setdefault(world, []).append(pid)

manifest = {
    "version": 1,
    "setup_cmd": "cd /verif/altsim && CARGO_NET_OFFLINE=true cargo build --offline",
    "hooks": {
        "guard": "cargo feature `verif-hooks` of altrios-core (off by default)",
        "enable": "altsim/Cargo.toml depends on /repo/rust/altrios-core with features = [\"verif-hooks\"]; every check rebuilds it from /repo's working tree",
        "baseline_off_cmd": "cd /repo/rust && cargo nextest run --workspace --no-fail-fast --tool-config-file pb:/w/lib/nextest.toml --profile pb --test-threads 8 --offline",
        "source_commits": hooks_commits,
        "add_only": True,
    },
    "engines": [
        {"name": f"altsim/{w}", "path": (f"/verif/altsim/src/{w}.rs" if "+" not in w else "/verif/altsim/src"), "serves_properties": sorted(p), "kind_free_text": "world of the altsim deterministic simulator (seeded PRNG decides scenario, operations, faults; real altrios-core objects; reference-model monitors)"}
        for w, p in sorted(worlds.items())
    ],
    "checks": checks,
    "notes": "One binary (altsim) = supervisor + worker sub-processes; VERIF_SEED (default 1) decides every run; exit 0 held / 1 VIOLATION with a minimised replay file under /verif/replays / 2 harness error. Known findings: /verif/known_findings.json. See DESIGN.md.",
    "not_applicable": [{"property_id": k, "reason": v} for k, v in sorted(NOT_YET.items()) if k not in CLAIMED],
}
json.dump(manifest, open(f"{ROOT}/MANIFEST.json", "w"), indent=1)
print("claimed:", sorted(CLAIMED), "unclaimed:", [x["property_id"] for x in manifest["not_applicable"]])
