#!/bin/sh
# usage: tools/seeded_matrix_par.sh [<shards>]   - seeded_matrix.sh over all kept changes in <shards> (default 4)
# parallel shards, each with private scratch directories (/tmp/vw<k>, /var/tmp/altsim-mut<k>, removed afterwards).
# Writes seeded/MATRIX.txt. Do not edit altsim sources while it runs (every shard copies them per change).
cd /verif || exit 2
n=${1:-4}
# IDS="<id> ..." restricts the run to those changes; OUT=<file> names the result file (default seeded/MATRIX.txt)
ids=${IDS:-$(ls seeded | grep -E '^C[0-9]+-')}
out=${OUT:-seeded/MATRIX.txt}
k=0
for s in $(seq 1 $n); do : > /var/tmp/matrix-shard-$s.txt; done
for s in $(seq 1 $n); do
  (
    i=0
    for id in $ids; do
      i=$((i+1)); [ $(( (i % n) + 1 )) -eq $s ] || continue
      p=$(python3 -c "import json;print(json.load(open('seeded/$id/meta.json'))['property'])")
      extra=$(python3 -c "import json;print(' '.join(json.load(open('seeded/$id/meta.json')).get('also_check',[])))")
      r=$(SCRATCH_ID=$s tools/try_mutant_scratch.sh /verif/seeded/$id/patch.diff $p $extra 2>&1 | grep -E '^(CAUGHT|MISSED|ERROR)' | cut -c1-200 | tr '\n' ';')
      echo "$id: $r" >> /var/tmp/matrix-shard-$s.txt
    done
    git -C /repo worktree remove --force /tmp/vw$s 2>/dev/null; rm -rf /tmp/vw$s /var/tmp/altsim-mut$s
  ) &
done
wait
git -C /repo worktree prune
cat /var/tmp/matrix-shard-*.txt | sort > $out
echo "caught: $(grep -c CAUGHT $out) of $(wc -l < $out); not caught: $(grep -v CAUGHT $out | cut -d: -f1 | tr '\n' ' ')"
