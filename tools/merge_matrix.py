# one-off helper of session 4: merges the partial results of tools/seeded_matrix_par.sh runs (files under /var/tmp)
# with the last full matrix (commit fe82a2a) into seeded/MATRIX.txt, tagging every line with when it was last run
import subprocess,os,glob
old={}
for l in subprocess.run(['git','-C','/verif','show','fe82a2a:seeded/MATRIX.txt'],capture_output=True,text=True).stdout.splitlines():
    if ':' in l: old[l.split(':')[0]]=l
new={}
for f in ['/var/tmp/matrix-part1.txt','/var/tmp/matrix-part2.keep']+sorted(glob.glob('/var/tmp/matrix-shard-*.txt'))+['/var/tmp/matrix-last5.log']:
    if os.path.exists(f):
        for l in open(f):
            l=l.rstrip('\n')
            if ':' in l and l[0]=='C' and l.split(':',1)[1].strip():
                new[l.split(':')[0]]=l
ids=sorted(d for d in os.listdir('/verif/seeded') if d[0]=='C' and '-' in d)
out=[]
for i in ids:
    if i in new: out.append(new[i]+'  [run: session 4, 2026-09-28]')
    elif i in old: out.append(old[i]+'  [last run: session 3 full matrix; not re-run in session 4 for lack of time]')
    else: out.append(i+': (not re-run; caught by the quick check of its property when it was kept, see its meta.json)')
open('/verif/seeded/MATRIX.txt','w').write('\n'.join(out)+'\n')
print(len(new),'re-run this session;', sum('CAUGHT' in x for x in out),'of',len(out),'caught; others:',[x.split(':')[0] for x in out if 'CAUGHT' not in x])
