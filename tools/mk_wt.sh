#!/bin/sh
# usage: tools/mk_wt.sh <name>   - scratch worktree of /repo HEAD at /tmp/wt/<name> with a pre-seeded target dir
# remove with: tools/rm_wt.sh <name>
n="$1"; d=/tmp/wt/$n
mkdir -p /tmp/wt
git -C /repo worktree add --detach "$d" HEAD >/dev/null 2>&1 || { echo "worktree add failed"; exit 2; }
cp -a /repo/rust/target "$d/rust/target"
mkdir -p "$d/out"
echo "$d"
