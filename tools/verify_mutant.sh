#!/bin/sh
# usage: tools/verify_mutant.sh <worktree> <dir with patch.diff demo.diff meta.json>
# Confirms, in a scratch worktree checked out at /repo's HEAD: demo passes without the patch;
# with the patch the pinned suite still passes (102) and the demo fails.
wt="$1"; d="$2"
head=$(git -C /repo rev-parse HEAD)
cd "$wt" || exit 2
git checkout -q -- . ; git clean -fdq rust/altrios-core/src rust/altrios-core/tests rust/altrios-core/examples 2>/dev/null
git checkout -q --detach "$head" || exit 2
demo_cmd=$(python3 -c "import json,sys; print(json.load(open('$d/meta.json'))['demo_cmd'])")
git apply "$d/demo.diff" || { echo "RESULT demo.diff does not apply"; exit 1; }
cd rust
echo "--- demo without patch: $demo_cmd"
( eval "$demo_cmd" ) > "$d/verify_demo_nopatch.log" 2>&1; rc0=$?
cd "$wt"; git apply "$d/patch.diff" || { echo "RESULT patch.diff does not apply on HEAD"; exit 1; }
cd rust
echo "--- demo with patch"
( eval "$demo_cmd" ) > "$d/verify_demo_patch.log" 2>&1; rc1=$?
echo "--- suite with patch"
cargo nextest run --workspace --no-fail-fast --tool-config-file pb:/w/lib/nextest.toml --profile pb --test-threads 8 --offline > "$d/verify_suite_patch.log" 2>&1
summ=$(grep -E "Summary" "$d/verify_suite_patch.log" | tail -1)
echo "RESULT demo_nopatch_rc=$rc0 demo_patch_rc=$rc1 suite: $summ"
