use altrios_core::prelude::*;
use altrios_core::traits::*;
use shuttle::{scheduler::RandomScheduler, Config, Runner};
use shuttle::sync::Mutex;
use std::sync::Arc;

pub fn run() {
    let mk = || {
        let mut pt = PowerTrace::default();
        pt.trim(None, Some(60)).unwrap();
        let mut v = vec![];
        for k in 0..4 {
            let loco = if k % 2 == 0 { Locomotive::default() } else { Locomotive::default_battery_electric_loco() };
            v.push(LocomotiveSimulation::new(loco, pt.clone(), Some(1)));
        }
        v
    };
    let mut serial = mk();
    for s in serial.iter_mut() { s.walk().unwrap(); }
    let serial_js = Arc::new(serial.clone());
    let mut cfg = Config::new();
    cfg.stack_size = 1 << 20;
    let t0 = std::time::Instant::now();
    let iters = 300;
    let runner = Runner::new(RandomScheduler::new_from_seed(42, iters), cfg);
    let sj = serial_js.clone();
    let n = runner.run(move || {
        let mut sims = mk();
        let queue: Mutex<Vec<(usize, &mut LocomotiveSimulation)>> = Mutex::new(sims.iter_mut().enumerate().rev().collect());
        shuttle::thread::scope(|sc| {
            for _w in 0..3 {
                sc.spawn(|| {
                    loop {
                        let item = queue.lock().unwrap().pop();
                        let Some((_i, sim)) = item else { break };
                        // manual walk with yields
                        while sim.i < sim.power_trace.len() {
                            sim.step().unwrap();
                            shuttle::thread::yield_now();
                        }
                    }
                });
            }
        });
        for (i, s) in sims.iter().enumerate() {
            // compare w/o the initial save_state difference: walk() saves initial state; we didn't call it; compare final state only
            assert_eq!(s.loco_unit.state, sj[i].loco_unit.state);
        }
    });
    println!("shuttle iterations {n} in {:?}", t0.elapsed());
}
fn serial_from(js: &str) -> LocomotiveSimulation { LocomotiveSimulation::from_json(js).unwrap() }
