use altrios_core::prelude::*;
use altrios_core::track::*;
use altrios_core::train::*;
use altrios_core::consist::*;
use altrios_core::consist::locomotive::*;
use altrios_core::traits::*;
use altrios_core::validate::*;
use altrios_core::uc;
use std::collections::HashMap;
use crate::gen::*;
use crate::pipe::rv;

pub fn run(seed: u64, n_sidings: usize, mode: u8, verbose: bool) -> Result<String, String> {
    let mut rng = Rng(seed.wrapping_mul(0x9E3779B97F4A7C15) | 1);
    let links = corridor(&mut rng, n_sidings);
    let n_fwd = 1 + 3 * n_sidings;
    let loc = |id: &str, l: usize| Location { location_id: id.into(), offset: 0.0 * uc::M, link_idx: LinkIdx::new(l as u32), is_front_end: false,
        grid_emissions_region: "x".into(), electricity_price_region: "x".into(), liquid_fuel_price_region: "x".into() };
    let mut lm: HashMap<String, Vec<Location>> = HashMap::new();
    lm.insert("A".into(), vec![loc("A", 1)]); lm.insert("B".into(), vec![loc("B", n_fwd)]);
    let ncars_l = 10 + rng.below(60) as u32;
    let tc = TrainConfig::new(vec![rv(true)], HashMap::from([("L".to_string(), ncars_l)]), TrainType::Freight, None, None, None).map_err(|e| e.to_string())?;
    let con = Consist::new(vec![Locomotive::default(); 3], Some(1), PowerDistributionControlType::default());
    let tsb = TrainSimBuilder::new("t".into(), tc, con, Some("A".into()), Some("B".into()), None);
    let mut s = tsb.make_speed_limit_train_sim(&lm, Some(1), None, None).map_err(|e| e.to_string())?;
    let mut route = vec![1usize];
    for sd in 0..n_sidings { let m = 1 + 3 * sd; route.push(m + 1 + rng.below(2) as usize); route.push(m + 3); }
    let route: Vec<LinkIdx> = route.iter().map(|i| LinkIdx::new(*i as u32)).collect();
    let r = std::panic::catch_unwind(std::panic::AssertUnwindSafe(|| -> anyhow::Result<()> {
        if mode == 0 { s.extend_path(&links, &route)?; s.finish(); s.walk()?; }
        else {
            // est-times style
            s.extend_path(&links, &route[0..1])?;
            let mut i = 1;
            loop {
                while s.state.offset < s.offset_end() - uc::MI * 5.0 || (s.is_finished() && s.state.speed.value > 0.0) { s.step()?; }
                if s.is_finished() { break; }
                if i < route.len() { s.extend_path(&links, &route[i..i + 1])?; i += 1; if i == route.len() { s.finish(); } } else { break; }
            }
        }
        Ok(())
    }));
    let n = s.history.len();
    let out = match r { Ok(Ok(())) => Ok(format!("ok steps {n}")), Ok(Err(e)) => Err(format!("ERR {}", format!("{e:#}").chars().rev().take(120).collect::<String>().chars().rev().collect::<String>())), Err(_) => Err(format!("PANIC step {n} off {:.1} v {:.4} lim {:.4}", s.state.offset.value, s.state.speed.value, s.state.speed_limit.value)) };
    if verbose && out.is_err() {
        println!("route {:?} train len {:.0}", route.iter().map(|l| l.idx()).collect::<Vec<_>>(), s.state.length.value);
        println!("link pts {:?}", s.link_points().iter().map(|p| (p.offset.value as i64, p.link_idx.idx())).collect::<Vec<_>>());
        println!("speed points: {:?}", s.path_tpc.speed_points().iter().map(|p| (p.offset.value as i64, (p.speed_limit.value * 100.0).round() / 100.0)).collect::<Vec<_>>());
        let h = &s.history;
        for k in n.saturating_sub(6)..n { println!("  k {k} t {:.0} off {:.2} v {:.5} lim {:.5} tgt {:.5}", h.time[k].value, h.offset[k].value, h.speed[k].value, h.speed_limit[k].value, h.speed_target[k].value); }
        let bp = serde_json::to_value(&s.braking_points).unwrap();
        let pts = bp["points"].as_array().unwrap();
        let off = s.state.offset.value;
        println!("braking points near offset:");
        for p in pts.iter().rev() { let o = p["offset"].as_f64().unwrap_or(f64::NAN); if (o - off).abs() < 400.0 { println!("   {:.2} lim {:.4} tgt {:.4}", o, p["speed_limit"].as_f64().unwrap_or(f64::NAN), p["speed_target"].as_f64().unwrap_or(f64::NAN)); } }
    }
    out
}
pub fn search() {
    for mode in [0u8, 1] {
        let mut c = std::collections::BTreeMap::new();
        let mut shown = 0;
        for seed in 1..=150u64 {
            let r = run(seed, 3, mode, false);
            let k = match &r { Ok(_) => "ok".to_string(), Err(e) => e.split_whitespace().take(1).collect::<String>() };
            if k == "PANIC" && shown < 2 { shown += 1; println!("mode {mode} seed {seed}: {r:?}"); let _ = run(seed, 3, mode, true); }
            *c.entry(k).or_insert(0) += 1;
        }
        println!("mode {mode}: {c:?}");
    }
}
