use altrios_core::prelude::*;
use altrios_core::track::*;
use altrios_core::train::*;
use altrios_core::consist::*;
use altrios_core::traits::*;
use altrios_core::validate::*;
use altrios_core::uc;
use std::collections::HashMap;
use crate::gen::Rng;
use crate::pipe::rv;

/// single link of length len with restrictions; train walks whole path
pub fn one(len: f64, sls: Vec<(f64, f64, f64)>, ncars: u32, nlocos: usize, verbose: bool) -> Result<String, String> {
    let mut sl: Vec<SpeedLimit> = sls.iter().map(|(a, b, s)| SpeedLimit { offset_start: *a * uc::M, offset_end: *b * uc::M, speed: *s * uc::MPS }).collect();
    sl.sort_by(|a, b| a.partial_cmp(b).unwrap());
    let link = Link {
        idx_curr: LinkIdx::new(1), idx_flip: LinkIdx::new(0), idx_next: LinkIdx::new(0), idx_next_alt: LinkIdx::new(0), idx_prev: LinkIdx::new(0), idx_prev_alt: LinkIdx::new(0),
        osm_id: None, length: len * uc::M,
        elevs: vec![Elev { offset: 0.0 * uc::M, elev: 0.0 * uc::M }, Elev { offset: len * uc::M, elev: 0.0 * uc::M }],
        headings: vec![], speed_sets: HashMap::new(),
        speed_set: Some(SpeedSet { speed_limits: sl, speed_params: vec![], is_head_end: false }),
        cat_power_limits: vec![], link_idxs_lockout: vec![],
    };
    let net = vec![Link::default(), link];
    let tc = TrainConfig::new(vec![rv(true)], HashMap::from([("L".to_string(), ncars)]), TrainType::Freight, None, None, None).map_err(|e| e.to_string())?;
    let con = Consist::new(vec![Locomotive::default(); nlocos], Some(1), PowerDistributionControlType::default());
    let loc = |id: &str, l: usize| Location { location_id: id.into(), offset: 0.0 * uc::M, link_idx: LinkIdx::new(l as u32), is_front_end: false,
        grid_emissions_region: "x".into(), electricity_price_region: "x".into(), liquid_fuel_price_region: "x".into() };
    let mut lm: HashMap<String, Vec<Location>> = HashMap::new();
    lm.insert("A".into(), vec![loc("A", 1)]); lm.insert("B".into(), vec![loc("B", 1)]);
    let tsb = TrainSimBuilder::new("t".into(), tc, con, Some("A".into()), Some("B".into()), None);
    let mut s = tsb.make_speed_limit_train_sim(&lm, Some(1), None, None).map_err(|e| e.to_string())?;
    s.extend_path(&net, &[LinkIdx::new(1)]).map_err(|e| format!("{e:#}"))?;
    s.finish();
    if verbose {
        println!("speed points: {:?}", s.path_tpc.speed_points().iter().map(|p| (p.offset.value, p.speed_limit.value)).collect::<Vec<_>>());
        let bp = serde_json::to_value(&s.braking_points).unwrap();
        let pts = bp["points"].as_array().unwrap();
        println!("braking points ({}):", pts.len());
        for p in pts.iter().rev().take(400) { println!("   {:.2} lim {:.4} tgt {:.4}", p["offset"].as_f64().unwrap_or(f64::NAN), p["speed_limit"].as_f64().unwrap_or(f64::NAN), p["speed_target"].as_f64().unwrap_or(f64::NAN)); }
    }
    let r = std::panic::catch_unwind(std::panic::AssertUnwindSafe(|| s.walk()));
    let n = s.history.len();
    if verbose {
        let h = &s.history;
        for k in n.saturating_sub(12)..n { println!("  k {k} t {:.0} off {:.2} v {:.5} lim {:.5} tgt {:.5} fb {:.0}", h.time[k].value, h.offset[k].value, h.speed[k].value, h.speed_limit[k].value, h.speed_target[k].value, s.fric_brake.history.force.get(k).map(|f| f.value).unwrap_or(f64::NAN)); }
        println!("state: off {:.3} v {:.5} len {:.1}", s.state.offset.value, s.state.speed.value, s.state.length.value);
    }
    match r { Ok(Ok(())) => Ok(format!("ok steps {n} final off {:.1} v {}", s.state.offset.value, s.state.speed.value)), Ok(Err(e)) => Err(format!("ERR {}", format!("{e:#}").chars().take(200).collect::<String>())), Err(_) => Err(format!("PANIC at step {n} off {:.1} v {:.4}", s.state.offset.value, s.state.speed.value)) }
}

pub fn search() {
    let mut c = std::collections::BTreeMap::new();
    let mut shown = 0;
    for seed in 1..=300u64 {
        let mut rng = Rng(seed.wrapping_mul(0x9E3779B97F4A7C15) | 1);
        let len = rng.range(8000.0, 20000.0);
        let sp = rng.range(8.0, 20.0);
        let a = rng.range(2000.0, len * 0.6); let b = rng.range(a + 10.0, len);
        let sls = vec![(0.0, len, sp), (a, b, rng.range(4.0, sp))];
        let ncars = 20 + rng.below(80) as u32;
        let r = one(len, sls.clone(), ncars, 3, false);
        let k = match &r { Ok(_) => "ok".to_string(), Err(e) => e.split_whitespace().take(1).collect::<String>() };
        if r.is_err() && shown < 3 && k == "PANIC" { shown += 1; println!("seed {seed}: len {len:.0} sls {sls:?} ncars {ncars}: {r:?}"); }
        *c.entry(k).or_insert(0) += 1;
    }
    println!("{c:?}");
}
