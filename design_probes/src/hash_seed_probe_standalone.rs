use std::collections::HashMap;
use std::cell::Cell;
thread_local! { static SEED: Cell<u64> = Cell::new(0); static CALLS: Cell<u64> = Cell::new(0); }
static mut PASS: bool = false;
#[no_mangle]
pub unsafe extern "C" fn getrandom(buf: *mut u8, len: usize, _flags: u32) -> isize {
    let mut s = SEED.with(|s| s.get()) ^ 0x9E3779B97F4A7C15u64.wrapping_mul(1 + CALLS.with(|c| { let v = c.get(); c.set(v + 1); v }));
    if s == 0 { s = 1; }
    for i in 0..len { s ^= s << 13; s ^= s >> 7; s ^= s << 17; *buf.add(i) = (s >> 32) as u8; }
    len as isize
}
fn order(seed: u64) -> String {
    std::thread::spawn(move || {
        SEED.with(|s| s.set(seed));
        let mut m: HashMap<String, u32> = HashMap::new();
        for k in ["a","b","c","d","e","f","g"] { m.insert(k.to_string(), 1); }
        format!("{:?}", m.keys().collect::<Vec<_>>())
    }).join().unwrap()
}
fn main() {
    for s in [1u64, 1, 2, 2, 3] { println!("seed {s}: {}", order(s)); }
}
