use altrios_core::prelude::*;
use altrios_core::track::*;
use altrios_core::train::*;
use altrios_core::consist::*;
use altrios_core::traits::*;
use altrios_core::validate::*;
use altrios_core::meet_pass::est_times::EstTimeNet;
use altrios_core::uc;

fn tri<T: SerdeAPI + PartialEq + std::fmt::Debug>(name: &str, x: &T) {
    let mut out = format!("{name:<34}");
    // yaml
    let r = (|| -> anyhow::Result<String> { let s1 = x.to_yaml()?; let y1 = T::from_yaml(&s1)?; let s2 = y1.to_yaml()?; let y2 = T::from_yaml(&s2)?; Ok(format!("eq0={} idem_bytes={} idem_obj={}", y1 == *x, s1 == s2, y1 == y2)) })();
    out += &format!(" | yaml: {}", r.unwrap_or_else(|e| format!("ERR {}", e.to_string().chars().take(60).collect::<String>())));
    let r = (|| -> anyhow::Result<String> { let s1 = x.to_json()?; let y1 = T::from_json(&s1)?; let s2 = y1.to_json()?; let y2 = T::from_json(&s2)?; Ok(format!("eq0={} idem_bytes={} idem_obj={}", y1 == *x, s1 == s2, y1 == y2)) })();
    out += &format!(" | json: {}", r.unwrap_or_else(|e| format!("ERR {}", e.to_string().chars().take(60).collect::<String>())));
    let r = (|| -> anyhow::Result<String> { let s1 = x.to_bincode()?; let y1 = T::from_bincode(&s1)?; let s2 = y1.to_bincode()?; let y2 = T::from_bincode(&s2)?; Ok(format!("eq0={} idem_bytes={} idem_obj={}", y1 == *x, s1 == s2, y1 == y2)) })();
    out += &format!(" | bin: {}", r.unwrap_or_else(|e| format!("ERR {}", e.to_string().chars().take(60).collect::<String>())));
    println!("{out}");
}

pub fn run() {
    tri("FuelConverter::default", &FuelConverter::default());
    tri("Generator::default", &Generator::default());
    tri("ElectricDrivetrain::default", &ElectricDrivetrain::default());
    tri("RES::default", &ReversibleEnergyStorage::default());
    tri("Locomotive::default", &Locomotive::default());
    tri("Locomotive::bel", &Locomotive::default_battery_electric_loco());
    tri("Consist::default", &Consist::default());
    tri("PowerTrace::default", &PowerTrace::default());
    tri("SpeedTrace::default", &SpeedTrace::default());
    tri("LocomotiveSimulation::default", &LocomotiveSimulation::default());
    tri("ConsistSimulation::default", &ConsistSimulation::default());
    tri("TrainParams::valid", &TrainParams::valid());
    tri("PathTpc::default(unfinished)", &PathTpc::default());
    tri("PathTpc::valid(finished)", &PathTpc::valid());
    tri("SetSpeedTrainSim::default", &SetSpeedTrainSim::default());
    tri("SpeedLimitTrainSim::valid", &SpeedLimitTrainSim::valid());
    tri("Link::valid", &Link::valid());
    tri("Network(valid)", &Network(Vec::<Link>::valid()));
    tri("RailVehicle::default", &RailVehicle::default());
    tri("TrainSimBuilder::default", &TrainSimBuilder::default());
    tri("InitTrainState::default", &InitTrainState::default());
    // stepped
    let mut ls = LocomotiveSimulation::new(Locomotive::default(), PowerTrace::default(), Some(1)); for _ in 0..7 { ls.step().unwrap(); }
    tri("LocomotiveSimulation stepped7", &ls);
    let mut cs = ConsistSimulation::default(); for _ in 0..7 { cs.step().unwrap(); }
    tri("ConsistSimulation stepped7", &cs);
    let mut ss = SetSpeedTrainSim::default(); ss.set_save_interval(Some(1)); for _ in 0..7 { ss.step().unwrap(); }
    tri("SetSpeedTrainSim stepped7", &ss);
    let mut sl = SpeedLimitTrainSim::valid(); sl.set_save_interval(Some(1)); for _ in 0..7 { sl.step().unwrap(); }
    tri("SpeedLimitTrainSim stepped7", &sl);
    // resume equivalence
    for fmt in ["yaml", "bin", "json"] {
        let mut a = ConsistSimulation::default(); a.power_trace.trim(None, Some(120)).unwrap();
        let mut b = a.clone();
        a.walk().unwrap();
        b.loco_con.save_state(); // mimic walk's initial save
        for _ in 0..40 { b.step().unwrap(); }
        let b2: Result<ConsistSimulation, _> = match fmt { "yaml" => ConsistSimulation::from_yaml(b.to_yaml().unwrap()), "bin" => ConsistSimulation::from_bincode(&b.to_bincode().unwrap()), _ => ConsistSimulation::from_json(b.to_json().unwrap()) };
        match b2 { Err(e) => println!("resume consist {fmt}: reload ERR {}", e.to_string().chars().take(80).collect::<String>()), Ok(mut b2) => { while b2.i < b2.power_trace.len() { b2.step().unwrap(); } println!("resume consist {fmt}: final state equal {} ; whole object equal {} ; energy_fuel diff {:e}", b2.loco_con.state == a.loco_con.state, b2 == a, (b2.loco_con.state.energy_fuel - a.loco_con.state.energy_fuel).value); } }
    }
    for fmt in ["yaml", "bin", "json"] {
        let mut a = SpeedLimitTrainSim::valid(); a.set_save_interval(Some(1));
        let mut b = a.clone();
        for _ in 0..600 { a.step().unwrap(); }
        for _ in 0..300 { b.step().unwrap(); }
        let b2: Result<SpeedLimitTrainSim, _> = match fmt { "yaml" => SpeedLimitTrainSim::from_yaml(b.to_yaml().unwrap()), "bin" => SpeedLimitTrainSim::from_bincode(&b.to_bincode().unwrap()), _ => SpeedLimitTrainSim::from_json(b.to_json().unwrap()) };
        match b2 { Err(e) => println!("resume slts {fmt}: reload ERR {}", e.to_string().chars().take(80).collect::<String>()), Ok(mut b2) => { for _ in 0..300 { b2.step().unwrap(); } println!("resume slts {fmt}: final state equal {} ; whole equal {} ; offset diff {:e}", b2.state == a.state, b2 == a, (b2.state.offset - a.state.offset).value); } }
    }
}
