use altrios_core::prelude::*;
use altrios_core::train::*;
use altrios_core::consist::*;
use altrios_core::consist::locomotive::locomotive_model::PowertrainType;
use altrios_core::validate::*;
use altrios_core::uc;

fn loco_lens(l: &Locomotive) -> Vec<(String, usize, usize)> {
    let mut v = vec![("loco".to_string(), l.history.len(), l.state.i)];
    match &l.loco_type {
        PowertrainType::ConventionalLoco(c) => { v.push(("fc".into(), c.fc.history.len(), c.fc.state.i)); v.push(("gen".into(), c.gen.history.len(), c.gen.state.i)); v.push(("edrv".into(), c.edrv.history.len(), c.edrv.state.i)); }
        PowertrainType::BatteryElectricLoco(b) => { v.push(("res".into(), b.res.history.len(), b.res.state.i)); v.push(("edrv".into(), b.edrv.history.len(), b.edrv.state.i)); }
        _ => {}
    }
    v
}
pub fn run() {
    for iv in [None, Some(1usize), Some(2), Some(3), Some(7)] {
        let mut pt = PowerTrace::default(); pt.trim(None, Some(30)).unwrap();
        let mut ls = LocomotiveSimulation::new(Locomotive::default(), pt.clone(), iv); ls.walk().unwrap();
        println!("iv {iv:?} LocoSim i={} : {:?}", ls.i, loco_lens(&ls.loco_unit));
        let mut cs = ConsistSimulation::new(Consist::default(), pt.clone(), iv); cs.walk().unwrap();
        let mut all = vec![("consist".to_string(), cs.loco_con.history.len(), cs.loco_con.state.i)]; for l in &cs.loco_con.loco_vec { all.extend(loco_lens(l)); }
        let lens: std::collections::BTreeSet<usize> = all.iter().map(|x| x.1).collect(); let is: std::collections::BTreeSet<usize> = all.iter().map(|x| x.2).collect();
        println!("iv {iv:?} ConsistSim i={} lens {:?} is {:?}", cs.i, lens, is);
        let mut ss = SetSpeedTrainSim::default(); ss.speed_trace.trim(None, Some(30)).unwrap(); ss.set_save_interval(iv); ss.walk().unwrap();
        let mut all = vec![("train".to_string(), ss.history.len(), ss.state.i), ("consist".to_string(), ss.loco_con.history.len(), ss.loco_con.state.i)]; for l in &ss.loco_con.loco_vec { all.extend(loco_lens(l)); }
        let lens: std::collections::BTreeSet<usize> = all.iter().map(|x| x.1).collect(); let is: std::collections::BTreeSet<usize> = all.iter().map(|x| x.2).collect();
        println!("iv {iv:?} SetSpeed lens {:?} is {:?}", lens, is);
        let mut sl = SpeedLimitTrainSim::valid(); sl.set_save_interval(iv); sl.save_state_pub(); for _ in 0..29 { sl.step().unwrap(); }
        let mut all = vec![("train".to_string(), sl.history.len(), sl.state.i), ("fb".to_string(), sl.fric_brake.history.len(), sl.fric_brake.state.i), ("consist".to_string(), sl.loco_con.history.len(), sl.loco_con.state.i)]; for l in &sl.loco_con.loco_vec { all.extend(loco_lens(l)); }
        let lens: std::collections::BTreeSet<usize> = all.iter().map(|x| x.1).collect(); let is: std::collections::BTreeSet<usize> = all.iter().map(|x| x.2).collect();
        println!("iv {iv:?} SpeedLimit lens {:?} is {:?}", lens, is);
    }
}
trait SavePub { fn save_state_pub(&mut self); }
impl SavePub for SpeedLimitTrainSim { fn save_state_pub(&mut self) {} }
