use altrios_core::prelude::*;
use altrios_core::consist::locomotive::locomotive_model::PowertrainType;
use altrios_core::consist::LocoTrait;
use altrios_core::uc;
use crate::gen::Rng;

pub fn run(seed: u64, bel: bool, n: usize) {
    let mut rng = Rng(seed.wrapping_mul(0x9E3779B97F4A7C15) | 1);
    let mut loco = if bel { Locomotive::default_battery_electric_loco() } else { Locomotive::default() };
    loco.set_save_interval(None);
    let mut t0 = std::time::Instant::now();
    let mut steps = 0; let mut rejected = 0;
    let mut maxres: f64 = 0.0;
    for k in 0..n {
        let dt = rng.range(0.2, 3.0) * uc::S;
        loco.set_pwr_aux(Some(true));
        loco.set_cur_pwr_max_out(None, dt).unwrap();
        let pmax = loco.state.pwr_out_max.value;
        let pmin = -match &loco.loco_type { PowertrainType::ConventionalLoco(c) => c.edrv.pwr_out_max.value, PowertrainType::BatteryElectricLoco(b) => b.edrv.pwr_out_max.value, _ => 0.0 };
        let choice = rng.below(6);
        let p = match choice { 0 => pmax, 1 => pmax * 0.999, 2 => 0.0, 3 => pmin * rng.f(), 4 => pmax * 1.01, _ => pmax * rng.f() };
        let before = loco.clone();
        match loco.solve_energy_consumption(p * uc::W, dt, Some(true)) {
            Ok(()) => { steps += 1; }
            Err(e) => { rejected += 1; if k < 3 { println!("rej: {}", format!("{e:#}").lines().last().unwrap_or("")); } loco = before; continue; }
        }
        loco.step();
        // ledger
        match &loco.loco_type {
            PowertrainType::ConventionalLoco(c) => {
                let fuel = c.fc.state.energy_fuel.value;
                let out = c.edrv.state.energy_mech_prop_out.value; // includes negative regen? conv: prop_out >= -0
                let rhs = c.edrv.state.energy_mech_prop_out.value + c.gen.state.energy_elec_aux.value + c.fc.state.energy_loss.value + c.gen.state.energy_loss.value + c.edrv.state.energy_loss.value;
                let res = (fuel - rhs).abs() / fuel.abs().max(1.0);
                maxres = maxres.max(res);
                let _ = out;
            }
            PowertrainType::BatteryElectricLoco(b) => {
                let chem = b.res.state.energy_out_chemical.value;
                // chem out = elec out + loss(sign?) ; loss is abs -> chem - elec = loss when discharging, elec - chem = loss when charging => chem = elec + loss always? charging: chem = elec*eta (both negative) => chem - elec = -elec(1-eta) >0 = loss. yes chem = elec + loss
                let rhs = b.res.state.energy_out_electrical.value + b.res.state.energy_loss.value;
                let r1 = (chem - rhs).abs() / chem.abs().max(1.0);
                let elec = b.res.state.energy_out_electrical.value;
                let rhs2 = b.edrv.state.energy_elec_prop_in.value + b.res.state.energy_aux.value;
                let r2 = (elec - rhs2).abs() / elec.abs().max(1.0);
                // edrv: elec_in = mech_out + loss (traction) ; regen: mech_out(neg)= elec_in/eta... elec_in = mech*eta ; loss = |mech - elec| ; elec_in = mech_out + loss in both cases? regen: mech=-10, elec=-9, loss=1: elec = mech + loss OK. traction: mech=10 elec=10.2 loss .2: elec=mech+loss ok
                let rhs3 = b.edrv.state.energy_mech_prop_out.value + b.edrv.state.energy_loss.value;
                let r3 = (b.edrv.state.energy_elec_prop_in.value - rhs3).abs() / rhs3.abs().max(1.0);
                maxres = maxres.max(r1).max(r2).max(r3);
            }
            _ => {}
        }
    }
    let el = t0.elapsed(); t0 = std::time::Instant::now(); let _ = t0;
    let soc = loco.reversible_energy_storage().map(|r| r.state.soc.value);
    println!("seed {seed} bel {bel}: steps {steps} rejected {rejected} maxres {maxres:.3e} soc {soc:?} time {el:?} ({:.0} steps/s)", steps as f64 / el.as_secs_f64());
}
