use altrios_core::validate::Valid;
use altrios_core::prelude::*;
use altrios_core::track::*;
use altrios_core::uc;
use crate::gen::*;

pub fn run(seed: u64) -> Result<(), String> {
    let mut rng = Rng(seed.wrapping_mul(0x9E3779B97F4A7C15) | 1);
    let ns = 1 + rng.below(3) as usize;
    let mut links = corridor(&mut rng, ns);
    // add headings to some links
    for l in links.iter_mut().skip(1) {
        if rng.below(2) == 0 {
            let n = 2 + rng.below(3) as usize; let len = l.length.value;
            l.headings = (0..n).map(|k| Heading { offset: (len * k as f64 / (n - 1) as f64) * uc::M, heading: rng.range(0.0, 6.28) * uc::RAD, lat: None, lon: None }).collect();
            let last = l.headings.len() - 1; l.headings[last].offset = l.length;
        }
    }
    let n_fwd = 1 + 3 * ns;
    // route: M0, A/B, M1, ...
    let mut route = vec![1usize];
    for s in 0..ns { let m = 1 + 3 * s; route.push(m + 1 + rng.below(2) as usize); route.push(m + 3); }
    let _ = n_fwd;
    let route: Vec<LinkIdx> = route.iter().map(|i| LinkIdx::new(*i as u32)).collect();
    let tp = TrainParams { length: rng.range(100.0, 3000.0) * uc::M, ..TrainParams::valid() };
    let mut whole = PathTpc::new(tp); whole.extend(&links, &route).map_err(|e| format!("{e:#}"))?;
    let mut parts = PathTpc::new(tp);
    let mut i = 0; while i < route.len() { let k = 1 + rng.below(3) as usize; let j = (i + k).min(route.len()); parts.extend(&links, &route[i..j]).map_err(|e| format!("{e:#}"))?; if rng.below(3)==0 { parts.extend(&links, &route[0..0]).map_err(|e| format!("{e:#}"))?; } i = j; }
    if whole != parts { return Err(format!("split mismatch seed {seed}")); }
    Ok(())
}
