mod gen; mod pipe; mod led; mod spd; mod shut; mod geo; mod c03; mod c03b; #[cfg(feature = "scratch-dispatch")] mod disp; mod est; mod trn; mod c10; mod rt; mod c19;
use altrios_core::prelude::*;
use altrios_core::traits::*;
use altrios_core::consist::locomotive::locomotive_model::PowertrainType;
use altrios_core::consist::LocoTrait;
use altrios_core::si;
use altrios_core::uc;

fn p_fc_off() {
    // C08: engine off -> fuel?
    let mut loco = Locomotive::default();
    let dt = 1.0 * uc::S;
    loco.set_pwr_aux(Some(false));
    loco.set_cur_pwr_max_out(None, dt).unwrap();
    let r = loco.solve_energy_consumption(0.0 * uc::W, dt, Some(false));
    println!("engine off solve: {:?}", r.map_err(|e| e.to_string()));
    if let PowertrainType::ConventionalLoco(c) = &loco.loco_type {
        println!("fc state: {:?}", c.fc.state);
        println!("gen state: {:?}", c.gen.state);
    }
    println!("loco pwr_aux {:?}", loco.state.pwr_aux);
}

fn p_serde() {
    let loco = Locomotive::default();
    let b = loco.to_bincode().unwrap();
    println!("bincode default loco roundtrip: {:?}", Locomotive::from_bincode(&b).map(|l| l == loco).map_err(|e| e.to_string()));
    let mut sim = LocomotiveSimulation::new(Locomotive::default(), PowerTrace::default(), Some(1));
    for _ in 0..5 { sim.step().unwrap(); }
    let b = sim.to_bincode().unwrap();
    println!("bincode stepped sim roundtrip: {:?}", LocomotiveSimulation::from_bincode(&b).map(|l| l == sim).map_err(|e| e.to_string()));
    let j = sim.to_json().unwrap();
    println!("json stepped sim roundtrip: {:?}", LocomotiveSimulation::from_json(&j).map(|l| l == sim).map_err(|e| e.to_string()));
    let y = sim.to_yaml().unwrap();
    println!("yaml stepped sim roundtrip: {:?}", LocomotiveSimulation::from_yaml(&y).map(|l| l == sim).map_err(|e| e.to_string()));
    let p = PathTpc::valid();
    let j = p.to_json().unwrap();
    println!("json PathTpc finished roundtrip: {:?}", PathTpc::from_json(&j).map(|l| l == p).map_err(|e| e.to_string()));
    let y = p.to_yaml().unwrap();
    println!("yaml PathTpc finished roundtrip: {:?}", PathTpc::from_yaml(&y).map(|l| l == p).map_err(|e| e.to_string()));
    let b = p.to_bincode().unwrap();
    println!("bin PathTpc finished roundtrip: {:?}", PathTpc::from_bincode(&b).map(|l| l == p).map_err(|e| e.to_string()));
    let c = Consist::default();
    let y = c.to_yaml().unwrap();
    println!("yaml consist default roundtrip: {:?}", Consist::from_yaml(&y).map(|l| l == c).map_err(|e| e.to_string()));
    let j = c.to_json().unwrap();
    println!("json consist default roundtrip: {:?}", Consist::from_json(&j).map(|l| l == c).map_err(|e| e.to_string()));
    let b = c.to_bincode().unwrap();
    println!("bin consist default roundtrip: {:?}", Consist::from_bincode(&b).map(|l| l == c).map_err(|e| e.to_string()));
}

use altrios_core::validate::*;
fn p_mass() {
    let mut loco = Locomotive::default();
    println!("mass {:?} mu {:?} fmax {:?}", loco.mass().map_err(|e| e.to_string()), loco.mu().map_err(|e| e.to_string()), loco.force_max().map_err(|e| e.to_string()));
    let r = loco.set_mu(0.3 * uc::R, altrios_core::consist::locomotive::MuSideEffect::ForceMax);
    println!("set_mu ForceMax: {:?}", r.map_err(|e| e.to_string()));
    println!("mass {:?} mu {:?} fmax {:?}", loco.mass().map_err(|e| e.to_string()), loco.mu().map_err(|e| e.to_string()), loco.force_max().map_err(|e| e.to_string()));
    let r = loco.set_mass(Some(200e3 * uc::KG), MassSideEffect::None);
    println!("set_mass 200t: {:?}", r.map_err(|e| e.to_string()));
    println!("mass {:?} mu {:?} fmax {:?}", loco.mass().map_err(|e| e.to_string()), loco.mu().map_err(|e| e.to_string()), loco.force_max().map_err(|e| e.to_string()));
}

fn p_net() {
    use altrios_core::track::*;
    let mut net = Vec::<Link>::valid();
    net[1].idx_flip = LinkIdx::new(7);
    let r = std::panic::catch_unwind(|| Network(net.clone()).validate().is_ok());
    println!("validate with OOB flip: {:?}", r.map_err(|_| "PANIC"));
    let mut net = Vec::<Link>::valid();
    net[1].cat_power_limits = vec![
        CatPowerLimit{offset_start: 0.0*uc::M, offset_end: 100.0*uc::M, power_limit: 1e6*uc::W, district_id: None},
        CatPowerLimit{offset_start: 200.0*uc::M, offset_end: 300.0*uc::M, power_limit: 1e6*uc::W, district_id: None}];
    println!("validate non-overlapping cat: {:?}", Network(net.clone()).validate().map_err(|e| format!("{e}")));
    net[1].cat_power_limits[1].offset_start = 50.0*uc::M;
    println!("validate overlapping cat: {:?}", Network(net.clone()).validate().map_err(|e| format!("{e}")));
}

fn main() {
    let a = std::env::args().nth(1).unwrap_or_default();
    match a.as_str() {
        "fc_off" => p_fc_off(),
        "serde" => p_serde(),
        "mass" => p_mass(),
        "net" => p_net(),
        "rt" => rt::run(),
        "c19" => c19::run(),
        "c10" => c10::run(),
        "trn" => { let a: Vec<String> = std::env::args().collect(); trn::search(a[2].parse().unwrap(), a[3].parse().unwrap()) },
        "est" => { let a: Vec<String> = std::env::args().collect(); est::search(a[2].parse().unwrap(), a[3].parse().unwrap()) },
        #[cfg(feature = "scratch-dispatch")] "disp" => { let a: Vec<String> = std::env::args().collect(); disp::search(a[2].parse().unwrap(), a[3].parse().unwrap(), a[4].parse().unwrap(), a[5].parse().unwrap()) },
        "c03b" => c03b::search(),
        "c03" => c03::search(),
        "geo" => { let mut c = std::collections::BTreeMap::new(); for seed in 1..=5000u64 { let r = std::panic::catch_unwind(|| geo::run(seed)); let k = match r { Ok(Ok(())) => "ok".to_string(), Ok(Err(e)) => e.chars().take(60).collect(), Err(_) => "PANIC".into() }; *c.entry(k).or_insert(0) += 1; } println!("{c:?}"); },
        "shut" => shut::run(),
        "spd" => { let mut c = std::collections::BTreeMap::new(); let mut shown = 0; for seed in 1..=20000u64 { let r = std::panic::catch_unwind(|| spd::run(seed, false)); let k = match r { Ok(Ok(())) => "ok".to_string(), Ok(Err(e)) => { if shown < 4 && e.starts_with("mism") { shown += 1; let _ = spd::run(seed, true); } e }, Err(_) => "PANIC".into() }; *c.entry(k).or_insert(0) += 1; } println!("{c:?}"); },
        "led" => { for seed in 1..=4 { led::run(seed, false, 20000); led::run(seed, true, 20000); } },
        "pipe" => { let n: u64 = std::env::args().nth(2).unwrap().parse().unwrap(); let ns: usize = std::env::args().nth(3).unwrap().parse().unwrap(); let nt: usize = std::env::args().nth(4).unwrap().parse().unwrap(); for seed in 1..=n { let r = std::panic::catch_unwind(|| pipe::run(seed, ns, nt, true)); match r { Ok(Ok(())) => {}, Ok(Err(e)) => println!("seed {seed}: ERR {}", format!("{e:#}").lines().take(3).collect::<Vec<_>>().join(" | ")), Err(_) => println!("seed {seed}: PANIC") } } },
        _ => println!("?"),
    }
}
