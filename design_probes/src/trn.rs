use altrios_core::prelude::*;
use altrios_core::track::*;
use altrios_core::train::*;
use altrios_core::consist::*;
use altrios_core::consist::locomotive::*;
use altrios_core::traits::*;
use altrios_core::validate::*;
use altrios_core::uc;
use std::collections::HashMap;
use crate::gen::*;
use crate::pipe::rv;

fn elev_at(links: &[Link], route: &[usize], x: f64) -> f64 {
    // walk route's own elevs, continuing from running value
    let mut base = 0.0; let mut run = links[route[0]].elevs[0].elev.value;
    for &l in route {
        let lk = &links[l]; let len = lk.length.value;
        let e0 = lk.elevs[0].elev.value;
        if x <= base + len || l == *route.last().unwrap() {
            let xo = x - base;
            for w in lk.elevs.windows(2) { if xo <= w[1].offset.value || std::ptr::eq(&w[1], lk.elevs.last().unwrap()) { let t = (xo - w[0].offset.value) / (w[1].offset.value - w[0].offset.value); return run + (w[0].elev.value - e0) + t * (w[1].elev.value - w[0].elev.value); } }
        }
        run += lk.elevs.last().unwrap().elev.value - e0; base += len;
    }
    f64::NAN
}

pub fn run(seed: u64, n_sidings: usize, verbose: bool) -> anyhow::Result<Vec<String>> {
    let mut rng = Rng(seed.wrapping_mul(0x9E3779B97F4A7C15) | 1);
    let links = corridor(&mut rng, n_sidings);
    let n_fwd = 1 + 3 * n_sidings;
    let loc = |id: &str, l: usize| Location { location_id: id.into(), offset: 0.0 * uc::M, link_idx: LinkIdx::new(l as u32), is_front_end: false,
        grid_emissions_region: "x".into(), electricity_price_region: "x".into(), liquid_fuel_price_region: "x".into() };
    let mut lm: HashMap<String, Vec<Location>> = HashMap::new();
    lm.insert("A".into(), vec![loc("A", 1)]); lm.insert("B".into(), vec![loc("B", n_fwd)]);
    let ncars = 10 + rng.below(60) as u32;
    let tc = TrainConfig::new(vec![rv(true)], HashMap::from([("L".to_string(), ncars)]), TrainType::Freight, None, None, None)?;
    let mut locos = vec![Locomotive::default(); 3]; locos.push(Locomotive::default_battery_electric_loco());
    let con = Consist::new(locos, Some(1), PowerDistributionControlType::default());
    let tsb = TrainSimBuilder::new("t".into(), tc, con, Some("A".into()), Some("B".into()), None);
    let mut s = tsb.make_speed_limit_train_sim(&lm, Some(1), None, None)?;
    let mut route = vec![1usize];
    for sd in 0..n_sidings { let m = 1 + 3 * sd; route.push(m + 1 + rng.below(2) as usize); route.push(m + 3); }
    let lroute: Vec<LinkIdx> = route.iter().map(|i| LinkIdx::new(*i as u32)).collect();
    s.extend_path(&links, &lroute)?; s.finish(); s.walk()?;
    let h = &s.history; let n = h.len();
    let mut viol = vec![]; let mut maxes = [0.0f64; 8];
    let g = uc::ACC_GRAV.value;
    let con_h = &s.loco_con.history;
    if con_h.len() != n { viol.push(format!("H0 consist hist {} vs train {}", con_h.len(), n)); }
    for k in 1..n {
        let dt = h.dt[k].value;
        let e = (h.time[k].value - h.time[k-1].value - dt).abs(); maxes[0] = maxes[0].max(e);
        let e = (h.offset[k].value - h.offset[k-1].value - dt * 0.5 * (h.speed[k].value + h.speed[k-1].value)).abs(); maxes[1] = maxes[1].max(e);
        // grade at position k-1
        let w = h.mass_static[k].value * g;
        let ef = elev_at(&links, &route, h.offset[k-1].value); let eb = elev_at(&links, &route, h.offset[k-1].value - h.length[k].value);
        let rg = w * (ef - eb) / h.length[k].value;
        let e = (h.res_grade[k].value - rg).abs() / w.max(1.0); maxes[2] = maxes[2].max(e);
        let e = (h.elev_front[k].value - ef).abs(); maxes[3] = maxes[3].max(e);
        let e = (h.weight_static[k].value - w).abs() / w; maxes[4] = maxes[4].max(e);
        // C11
        let e = (h.pwr_whl_out[k].value - con_h.pwr_out[k].value).abs() / h.pwr_whl_out[k].value.abs().max(1.0); maxes[5] = maxes[5].max(e);
        let e = (h.energy_whl_out[k].value - con_h.energy_out[k].value).abs() / h.energy_whl_out[k].value.abs().max(1.0); maxes[6] = maxes[6].max(e);
        // aero
        let v0 = h.speed[k-1].value; let _ = v0;
    }
    let lsum: f64 = s.loco_con.loco_vec.iter().map(|l| l.state.energy_out.value).sum();
    maxes[7] = (lsum - s.loco_con.state.energy_out.value).abs() / lsum.abs().max(1.0);
    if verbose { println!("seed {seed}: n {n} maxes time {:.2e} off {:.2e} grade(rel W) {:.2e} elev {:.2e} W {:.2e} pwr {:.2e} en {:.2e} locosum {:.2e}", maxes[0], maxes[1], maxes[2], maxes[3], maxes[4], maxes[5], maxes[6], maxes[7]); }
    if maxes[0] > 1e-9 { viol.push("time".into()); } if maxes[1] > 1e-5 { viol.push("offset".into()); } if maxes[2] > 1e-9 { viol.push("grade".into()); } if maxes[3] > 1e-6 { viol.push("elev".into()); }
    if maxes[5] > 1e-8 { viol.push("pwr".into()); } if maxes[6] > 1e-9 { viol.push("energy".into()); }
    Ok(viol)
}
pub fn search(n: u64, ns: usize) {
    let mut c = std::collections::BTreeMap::new();
    for seed in 1..=n {
        let r = std::panic::catch_unwind(|| run(seed, ns, seed <= 6));
        let k = match &r { Ok(Ok(v)) => if v.is_empty() { "ok".to_string() } else { format!("VIOL {}", v.join(",")) }, Ok(Err(e)) => format!("ERR {}", format!("{e:#}").lines().last().unwrap_or("").chars().take(50).collect::<String>()), Err(_) => "PANIC".into() };
        *c.entry(k).or_insert(0) += 1;
    }
    println!("{c:#?}");
}
