use altrios_core::prelude::*;
use altrios_core::track::*;
use altrios_core::uc;
use altrios_core::si;
use std::collections::HashMap;

pub struct Rng(pub u64);
impl Rng {
    pub fn next(&mut self) -> u64 { self.0 ^= self.0 << 13; self.0 ^= self.0 >> 7; self.0 ^= self.0 << 17; self.0 }
    pub fn f(&mut self) -> f64 { (self.next() >> 11) as f64 / (1u64 << 53) as f64 }
    pub fn range(&mut self, lo: f64, hi: f64) -> f64 { lo + (hi - lo) * self.f() }
    pub fn below(&mut self, n: u64) -> u64 { self.next() % n }
}

/// corridor: M0 (A1|B1) M1 (A2|B2) ... Mk ; returns forward links idx 1..n, flips n+1..2n
pub fn corridor(rng: &mut Rng, n_sidings: usize) -> Vec<Link> {
    // forward link specs: (len, prevs, nexts)
    let mut fwd: Vec<(f64, Vec<usize>, Vec<usize>)> = vec![];
    // indices 1-based within fwd
    let n_fwd = 1 + 3 * n_sidings;
    for s in 0..=n_sidings {
        let m = 1 + 3 * s; // main single idx
        let len_m = rng.range(3000.0, 20000.0);
        let prevs = if s == 0 { vec![] } else { vec![m - 2, m - 1] };
        let nexts = if s == n_sidings { vec![] } else { vec![m + 1, m + 2] };
        fwd.push((len_m, prevs, nexts));
        if s < n_sidings {
            let len_a = rng.range(2500.0, 5000.0);
            fwd.push((len_a, vec![m], vec![m + 3]));
            fwd.push((len_a + rng.range(-1.0, 1.0), vec![m], vec![m + 3]));
        }
    }
    assert_eq!(fwd.len(), n_fwd);
    let flip = |i: usize| 2 * n_fwd + 1 - i;
    let mut links = vec![Link::default()];
    let mut elev0 = 100.0;
    let mut elev_at_start = vec![0.0; n_fwd + 2];
    let mut elev_at_end = vec![0.0; n_fwd + 2];
    let mut specs = vec![];
    // forward
    for (i0, (len, prevs, nexts)) in fwd.iter().enumerate() {
        let i = i0 + 1;
        let start_elev = if prevs.is_empty() { elev0 } else { elev_at_end[prevs[0]] };
        let npts = 2 + rng.below(4) as usize;
        let mut offs: Vec<f64> = (0..npts).map(|k| len * k as f64 / (npts - 1) as f64).collect();
        offs[npts - 1] = *len;
        let mut elevs = vec![start_elev];
        for k in 1..npts {
            let gb: f64 = std::env::var("GB").ok().and_then(|s| s.parse().ok()).unwrap_or(0.012); let g = rng.range(-gb, gb);
            elevs.push(elevs[k - 1] + g * (offs[k] - offs[k - 1]));
        }
        // siding B must end at same elevation as A for continuity: force
        if prevs.len() == 1 && nexts.len() == 1 && (i % 3 == 0) {
            // B link (index m+2): match end elevation of A (i-1)
            let e = elev_at_end[i - 1];
            let last = elevs.len() - 1;
            elevs[last] = e;
        }
        elev_at_start[i] = start_elev;
        elev_at_end[i] = *elevs.last().unwrap();
        elev0 = elev_at_end[i];
        let speed = rng.range(8.0, 25.0);
        let mut sls = vec![(0.0, *len, speed)];
        if std::env::var("NEST").is_ok() && rng.below(2) == 0 {
            let a = rng.range(0.0, len * 0.6);
            let b = rng.range(a + 10.0, *len);
            sls.push((a, b, rng.range(4.0, speed)));
        }
        specs.push((i, *len, prevs.clone(), nexts.clone(), offs, elevs, sls));
    }
    let mk = |idx: usize, len: f64, prev: Vec<usize>, next: Vec<usize>, flip: usize, offs: &Vec<f64>, elevs: &Vec<f64>, sls: &Vec<(f64, f64, f64)>| -> Link {
        let mut sl: Vec<SpeedLimit> = sls.iter().map(|(a, b, s)| SpeedLimit { offset_start: *a * uc::M, offset_end: *b * uc::M, speed: *s * uc::MPS }).collect();
        sl.sort_by(|a, b| a.partial_cmp(b).unwrap());
        Link {
            idx_curr: LinkIdx::new(idx as u32),
            idx_flip: LinkIdx::new(flip as u32),
            idx_next: LinkIdx::new(*next.get(0).unwrap_or(&0) as u32),
            idx_next_alt: LinkIdx::new(*next.get(1).unwrap_or(&0) as u32),
            idx_prev: LinkIdx::new(*prev.get(0).unwrap_or(&0) as u32),
            idx_prev_alt: LinkIdx::new(*prev.get(1).unwrap_or(&0) as u32),
            osm_id: None,
            length: len * uc::M,
            elevs: offs.iter().zip(elevs).map(|(o, e)| Elev { offset: *o * uc::M, elev: *e * uc::M }).collect(),
            headings: vec![],
            speed_sets: HashMap::new(),
            speed_set: Some(SpeedSet { speed_limits: sl, speed_params: vec![], is_head_end: false }),
            cat_power_limits: vec![],
            link_idxs_lockout: vec![],
        }
    };
    for (i, len, prevs, nexts, offs, elevs, sls) in &specs {
        links.push(mk(*i, *len, prevs.clone(), nexts.clone(), flip(*i), offs, elevs, sls));
    }
    // flips in order n_fwd+1 .. 2 n_fwd : flip(i) for i = n_fwd down to 1
    for i in (1..=n_fwd).rev() {
        let (_, len, prevs, nexts, offs, elevs, sls) = &specs[i - 1];
        let roffs: Vec<f64> = offs.iter().rev().map(|o| len - o).collect();
        let mut roffs = roffs; roffs[0] = 0.0; let l = roffs.len(); roffs[l-1] = *len;
        let relevs: Vec<f64> = elevs.iter().rev().cloned().collect();
        let rsls: Vec<(f64, f64, f64)> = sls.iter().map(|(a, b, s)| ((len - b).max(0.0), len - a, *s)).collect();
        // prev of flip = flips of nexts ; next of flip = flips of prevs
        let fprev: Vec<usize> = nexts.iter().map(|x| flip(*x)).collect();
        let fnext: Vec<usize> = prevs.iter().map(|x| flip(*x)).collect();
        links.push(mk(flip(i), *len, fprev, fnext, i, &roffs, &relevs, &rsls));
    }
    links
}
