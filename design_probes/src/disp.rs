use altrios_core::prelude::*;
use altrios_core::track::*;
use altrios_core::train::*;
use altrios_core::consist::*;
use altrios_core::consist::locomotive::*;
use altrios_core::traits::*;
use altrios_core::validate::*;
use altrios_core::uc;
use altrios_core::meet_pass::dispatch::{run_dispatch, SNAP, TRANS};
use altrios_core::meet_pass::disp_structs::*;
use std::collections::HashMap;
use crate::gen::*;
use crate::pipe::rv;

pub fn run(seed: u64, n_sidings: usize, n_trains: usize, window: f64, verbose: bool) -> anyhow::Result<Vec<String>> {
    let mut rng = Rng(seed.wrapping_mul(0x9E3779B97F4A7C15) | 1);
    let links = corridor(&mut rng, n_sidings);
    let net = Network(links);
    net.validate().map_err(|e| anyhow::anyhow!("{e}"))?;
    let n_fwd = 1 + 3 * n_sidings;
    let loc = |id: &str, l: usize| Location { location_id: id.into(), offset: 0.0 * uc::M, link_idx: LinkIdx::new(l as u32), is_front_end: false,
        grid_emissions_region: "x".into(), electricity_price_region: "x".into(), liquid_fuel_price_region: "x".into() };
    let mut lm: HashMap<String, Vec<Location>> = HashMap::new();
    lm.insert("A".into(), vec![loc("A", 1), loc("A", 2 * n_fwd)]);
    lm.insert("B".into(), vec![loc("B", n_fwd), loc("B", n_fwd + 1)]);
    let mut sims = vec![]; let mut dirs = vec![];
    for t in 0..n_trains {
        let ncars_l = 10 + rng.below(60) as u32;
        let tc = TrainConfig::new(vec![rv(true)], HashMap::from([("L".to_string(), ncars_l)]), TrainType::Freight, None, None, None)?;
        let con = Consist::new(vec![Locomotive::default(); 3], Some(1), PowerDistributionControlType::default());
        let fwd = rng.below(2) == 0; dirs.push(fwd);
        let (o, d) = if fwd { ("A", "B") } else { ("B", "A") };
        let its = InitTrainState::new(Some(rng.range(0.0, window) * uc::S), None, None);
        let tsb = TrainSimBuilder::new(format!("{t}"), tc, con, Some(o.into()), Some(d.into()), Some(its));
        sims.push(tsb.make_speed_limit_train_sim(&lm, None, None, None)?);
    }
    let mut ets = vec![];
    for s in &sims { ets.push(make_est_times(s.clone(), &net)?.0); }
    SNAP.with(|s| s.borrow_mut().clear());
    let plans = run_dispatch(&net, &sims, ets.clone(), false, false)?;
    let snaps = SNAP.with(|s| std::mem::take(&mut *s.borrow_mut()));
    let trans = TRANS.with(|s| std::mem::take(&mut *s.borrow_mut()));
    let mut viol = vec![];
    for t in trans { viol.push(format!("TR {t}")); }
    let spacing = 8.0 * 60.0;
    for (si, (_mover, auths, _blocked)) in snaps.iter().enumerate() {
        let last = si == snaps.len() - 1;
        for l in 1..net.0.len() {
            let f = net.0[l].idx_flip.idx();
            if f > l {
                for a in auths[l].iter().skip(1) { for b in auths[f].iter().skip(1) {
                    if a.train_idx != b.train_idx {
                        let (a0, a1, b0, b1) = (a.arrive_entry.value, a.clear_exit.value, b.arrive_entry.value, b.clear_exit.value);
                        if a0 < b1 && b0 < a1 { viol.push(format!("I1 snap {si}{} link {l}/{f} trains {:?}/{:?} [{a0:.0},{a1:.0}] [{b0:.0},{b1:.0}]", if last {"(final)"} else {""}, a.train_idx, b.train_idx)); }
                    }
                } }
            }
            for w in auths[l].windows(2).skip(1) {
                let (p, n) = (&w[0], &w[1]);
                if n.arrive_entry.value < p.clear_entry.value + spacing - 1e-6 && last { viol.push(format!("I2 link {l} trains {:?}->{:?} arrive_entry {:.0} < prev clear_entry {:.0}+{spacing}", p.train_idx, n.train_idx, n.arrive_entry.value, p.clear_entry.value)); }
                if last && (n.arrive_exit.value < p.arrive_exit.value || n.clear_exit.value < p.clear_exit.value || n.clear_entry.value < p.clear_entry.value) { viol.push(format!("I3 order link {l} {:?}->{:?}: p {:?} n {:?}", p.train_idx, n.train_idx, (p.arrive_entry.value, p.arrive_exit.value, p.clear_entry.value, p.clear_exit.value), (n.arrive_entry.value, n.arrive_exit.value, n.clear_entry.value, n.clear_exit.value))); }
                if n.offset_front.is_finite() && p.offset_back.is_finite() && n.offset_front.value > p.offset_back.value + 1e-6 { viol.push(format!("I4 snap {si} link {l}: front {:.1} of {:?} past back {:.1} of {:?}", n.offset_front.value, n.train_idx, p.offset_back.value, p.train_idx)); }
            }
        }
    }
    // plan validity quick: C05 contiguity + times nondecreasing + depart
    for (t, p) in plans.iter().enumerate() {
        for w in p.windows(2) { let l = &net.0[w[0].link_idx.idx()]; if !(l.idx_next == w[1].link_idx || l.idx_next_alt == w[1].link_idx) { viol.push(format!("P1 train {t} non-contiguous {:?}->{:?}", w[0].link_idx, w[1].link_idx)); } if w[1].time < w[0].time { viol.push(format!("P2 train {t} time decreases")); } }
        if p[0].time < sims[t].state.time { viol.push(format!("P3 train {t} departs early {:?} < {:?}", p[0].time, sims[t].state.time)); }
    }
    if verbose { println!("seed {seed}: snaps {} dirs {:?} viol {}", snaps.len(), dirs, viol.len()); for v in viol.iter().take(6) { println!("   {v}"); } }
    Ok(viol)
}
pub fn search(n: u64, ns: usize, nt: usize, window: f64) {
    let mut c = std::collections::BTreeMap::new();
    let mut shown = 0;
    for seed in 1..=n {
        let r = std::panic::catch_unwind(|| run(seed, ns, nt, window, false));
        let k = match &r { Ok(Ok(v)) => if v.is_empty() { "ok".to_string() } else { let mut ks: Vec<String> = v.iter().map(|s| s[..2].to_string()).collect(); ks.sort(); ks.dedup(); format!("VIOL {}", ks.join(",")) }, Ok(Err(e)) => format!("ERR {}", format!("{e:#}").lines().last().unwrap_or("").chars().take(50).collect::<String>()), Err(_) => "PANIC".into() };
        if k.starts_with("VIOL") && shown < 5 { shown += 1; let _ = run(seed, ns, nt, window, true); }
        *c.entry(k).or_insert(0) += 1;
    }
    println!("{c:#?}");
}
