use altrios_core::prelude::*;
use altrios_core::consist::*;
use altrios_core::consist::locomotive::locomotive_model::PowertrainType;
use altrios_core::uc;

pub fn run() {
    // BEL at min soc in a consist with conventional units, RESGreedy, positive demand
    let mut bel = Locomotive::default_battery_electric_loco();
    if let PowertrainType::BatteryElectricLoco(b) = &mut bel.loco_type { b.res.state.soc = b.res.min_soc; }
    let mut con = Consist::new(vec![Locomotive::default(), bel, Locomotive::default()], Some(1), PowerDistributionControlType::default());
    let dt = 1.0 * uc::S;
    // warm up conventional units a bit
    con.set_pwr_aux(Some(true)).unwrap();
    con.set_cur_pwr_max_out(None, dt).unwrap();
    println!("consist pwr_out_max {:.0} reves {:.0} non_reves {:.0} regen {:.0}", con.state.pwr_out_max.value, con.state.pwr_out_max_reves.value, con.state.pwr_out_max_non_reves.value, con.state.pwr_regen_max.value);
    for l in &con.loco_vec { println!("  loco {} pwr_out_max {:.0} aux {:.0}", l.loco_type.to_string(), l.state.pwr_out_max.value, l.state.pwr_aux.value); }
    let req = 0.5 * con.state.pwr_out_max.value;
    let r = con.solve_energy_consumption(req * uc::W, dt, Some(true));
    println!("solve {:.0} W: {:?}", req, r.map_err(|e| format!("{e:#}").chars().take(300).collect::<String>()));
    for l in &con.loco_vec { println!("  loco {} pwr_out {:.0}", l.loco_type.to_string(), l.state.pwr_out.value); }
    // standalone loco braking beyond edrv rating
    let mut loco = Locomotive::default();
    loco.set_pwr_aux(Some(true)); loco.set_cur_pwr_max_out(None, dt).unwrap();
    let r = loco.solve_energy_consumption(-50e6 * uc::W, dt, Some(true));
    println!("standalone conv loco -50 MW (edrv rating 5 MW): {:?}", r.map_err(|e| e.to_string()));
    if let PowertrainType::ConventionalLoco(c) = &loco.loco_type { println!("   dyn brake {:.0} pwr_out {:.0}", c.edrv.state.pwr_mech_dyn_brake.value, loco.state.pwr_out.value); }
}
