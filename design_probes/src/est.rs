use altrios_core::prelude::*;
use altrios_core::track::*;
use altrios_core::train::*;
use altrios_core::consist::*;
use altrios_core::traits::*;
use altrios_core::validate::*;
use altrios_core::uc;
use altrios_core::meet_pass::disp_structs::*;
use std::collections::HashMap;
use crate::gen::*;
use crate::pipe::rv;

pub fn run(seed: u64, n_sidings: usize, verbose: bool) -> anyhow::Result<Vec<String>> {
    let mut rng = Rng(seed.wrapping_mul(0x9E3779B97F4A7C15) | 1);
    let links = corridor(&mut rng, n_sidings);
    let net = Network(links);
    let n_fwd = 1 + 3 * n_sidings;
    let loc = |id: &str, l: usize| Location { location_id: id.into(), offset: 0.0 * uc::M, link_idx: LinkIdx::new(l as u32), is_front_end: false,
        grid_emissions_region: "x".into(), electricity_price_region: "x".into(), liquid_fuel_price_region: "x".into() };
    let mut lm: HashMap<String, Vec<Location>> = HashMap::new();
    lm.insert("A".into(), vec![loc("A", 1), loc("A", 2 * n_fwd)]);
    lm.insert("B".into(), vec![loc("B", n_fwd), loc("B", n_fwd + 1)]);
    let tc = TrainConfig::new(vec![rv(true)], HashMap::from([("L".to_string(), 10 + rng.below(60) as u32)]), TrainType::Freight, None, None, None)?;
    let con = Consist::new(vec![Locomotive::default(); 3], Some(1), PowerDistributionControlType::default());
    let its = InitTrainState::new(Some(rng.range(0.0, 1000.0) * uc::S), None, None);
    let tsb = TrainSimBuilder::new("t".into(), tc, con, Some("A".into()), Some("B".into()), Some(its));
    let s = tsb.make_speed_limit_train_sim(&lm, None, None, None)?;
    let et = make_est_times(s.clone(), &net)?.0;
    let v = &et.val; let n = v.len();
    let mut viol = vec![];
    for (i, e) in v.iter().enumerate() {
        if !(e.time_sched.value.is_finite() && e.time_sched.value >= 0.0) { viol.push(format!("T0 node {i} time_sched {:?}", e.time_sched.value)); }
        if !(e.time_to_next.value.is_finite() && e.time_to_next.value >= -1e-9) { viol.push(format!("T1 node {i} time_to_next {:?}", e.time_to_next.value)); }
        if !(e.dist_to_next.value.is_finite() && e.dist_to_next.value >= -1e-9) { viol.push(format!("T2 node {i} dist_to_next {:?}", e.dist_to_next.value)); }
        if e.idx_next != 0 { let nx = &v[e.idx_next as usize]; if !(nx.idx_prev as usize == i || nx.idx_prev_alt as usize == i) { viol.push(format!("L1 node {i} next {} doesn't point back", e.idx_next)); }
            if nx.idx_prev as usize == i { let d = nx.time_sched.value - (e.time_sched.value + e.time_to_next.value); if d.abs() > 1e-6 { viol.push(format!("S1 node {i}->{} primary time mismatch {d:.3} (types {:?}->{:?})", e.idx_next, e.link_event.est_type, nx.link_event.est_type)); } }
            else { let d = nx.time_sched.value - (e.time_sched.value + e.time_to_next.value); if d > 1e-6 { viol.push(format!("S2 node {i}->{} sched later than alt pred allows {d:.3}", e.idx_next)); } } }
        if e.idx_next_alt != 0 { let nx = &v[e.idx_next_alt as usize]; if nx.idx_prev as usize != i { viol.push(format!("L2 node {i} next_alt {} prev {}", e.idx_next_alt, nx.idx_prev)); } }
        if i > 1 && e.idx_prev != 0 || i > 1 { let pv = &v[e.idx_prev as usize]; if !(pv.idx_next as usize == i || pv.idx_next_alt as usize == i) { viol.push(format!("L3 node {i} prev {} doesn't point fwd", e.idx_prev)); } }
        let _ = n;
    }
    if verbose { println!("seed {seed}: nodes {n} viol {}", viol.len()); for x in viol.iter().take(8) { println!("   {x}"); }
        for (i, e) in v.iter().enumerate().take(40) { println!("  {i}: {:?} L{} ts {:.1} ttn {:.1} d {:.1} n {} na {} p {} pa {}", e.link_event.est_type, e.link_event.link_idx.idx(), e.time_sched.value, e.time_to_next.value, e.dist_to_next.value, e.idx_next, e.idx_next_alt, e.idx_prev, e.idx_prev_alt); } }
    Ok(viol)
}
pub fn search(n: u64, ns: usize) {
    let mut c = std::collections::BTreeMap::new(); let mut shown = 0;
    for seed in 1..=n {
        let r = std::panic::catch_unwind(|| run(seed, ns, false));
        let k = match &r { Ok(Ok(v)) => if v.is_empty() { "ok".to_string() } else { let mut ks: Vec<String> = v.iter().map(|s| s[..2].to_string()).collect(); ks.sort(); ks.dedup(); format!("VIOL {}", ks.join(",")) }, Ok(Err(e)) => format!("ERR {}", format!("{e:#}").lines().last().unwrap_or("").chars().take(50).collect::<String>()), Err(_) => "PANIC".into() };
        if k.starts_with("VIOL") && shown < 2 { shown += 1; let _ = run(seed, ns, true); }
        *c.entry(k).or_insert(0) += 1;
    }
    println!("{c:#?}");
}
