use altrios_core::prelude::*;
use altrios_core::track::*;
use altrios_core::train::*;
use altrios_core::consist::*;
use altrios_core::consist::locomotive::*;
use altrios_core::traits::*;
use altrios_core::validate::*;
use altrios_core::uc;
use altrios_core::si;
use altrios_core::meet_pass::dispatch::run_dispatch;
use std::collections::HashMap;
use crate::gen::*;

pub fn rv(loaded: bool) -> RailVehicle {
    RailVehicle {
        car_type: if loaded { "L".into() } else { "E".into() },
        length: 18.0 * uc::M, axle_count: 4, brake_count: 1,
        mass_static_base: 28500.0 * uc::KG,
        mass_freight: if loaded { 101500.0 * uc::KG } else { 0.0 * uc::KG },
        speed_max: 20.0 * uc::MPS, braking_ratio: 0.11 * uc::R,
        mass_rot_per_axle: 750.0 * uc::KG, bearing_res_per_axle: 40.26 * uc::N,
        rolling_ratio: 0.001546 * uc::R, davis_b: 0.0 * uc::S / uc::M, cd_area: 4.087 * uc::M2,
        curve_coeff_0: 0.056 * uc::R, curve_coeff_1: 0.4387579 * uc::R, curve_coeff_2: 0.01025485 * uc::R,
    }
}

pub fn run(seed: u64, n_sidings: usize, n_trains: usize, verbose: bool) -> anyhow::Result<()> {
    let mut rng = Rng(seed.wrapping_mul(0x9E3779B97F4A7C15) | 1);
    let links = corridor(&mut rng, n_sidings);
    let net = Network(links);
    net.validate().map_err(|e| anyhow::anyhow!("{e}"))?;
    let n_fwd = 1 + 3 * n_sidings;
    let loc = |id: &str, l: usize| Location { location_id: id.into(), offset: 0.0 * uc::M, link_idx: LinkIdx::new(l as u32), is_front_end: false,
        grid_emissions_region: "x".into(), electricity_price_region: "x".into(), liquid_fuel_price_region: "x".into() };
    let mut lm: HashMap<String, Vec<Location>> = HashMap::new();
    lm.insert("A".into(), vec![loc("A", 1), loc("A", 2 * n_fwd)]);
    lm.insert("B".into(), vec![loc("B", n_fwd), loc("B", n_fwd + 1)]);
    let mut sims = vec![];
    for t in 0..n_trains {
        let ncars_l = 10 + rng.below(60) as u32;
        let ncars_e = rng.below(40) as u32;
        let tc = TrainConfig::new(vec![rv(true), rv(false)], HashMap::from([("L".to_string(), ncars_l), ("E".to_string(), ncars_e)]), TrainType::Freight, None, None, None)?;
        let mut locos = vec![];
        let nl = 2 + rng.below(4);
        for _ in 0..nl { locos.push(if rng.below(4) == 0 { Locomotive::default_battery_electric_loco() } else { Locomotive::default() }); }
        let con = Consist::new(locos, Some(1), PowerDistributionControlType::default());
        let fwd = rng.below(2) == 0;
        let (o, d) = if fwd { ("A", "B") } else { ("B", "A") };
        let its = InitTrainState::new(Some(rng.range(0.0, 1200.0) * uc::S), None, None);
        let tsb = TrainSimBuilder::new(format!("{t}"), tc, con, Some(o.into()), Some(d.into()), Some(its));
        let slts = tsb.make_speed_limit_train_sim(&lm, Some(1), None, None)?;
        sims.push(slts);
    }
    let t0 = std::time::Instant::now();
    let mut ets = vec![];
    for s in &sims { ets.push(make_est_times(s.clone(), &net)?.0); }
    let t1 = std::time::Instant::now();
    let plans = run_dispatch(&net, &sims, ets.clone(), false, false)?;
    let t2 = std::time::Instant::now();
    let mut steps = 0usize;
    for (s, p) in sims.iter_mut().zip(&plans) {
        s.walk_timed_path(&net, p)?;
        steps += s.history.len();
    }
    let t3 = std::time::Instant::now();
    if verbose {
        println!("seed {seed}: est {:?} ({} nodes) disp {:?} walk {:?} steps {}", t1 - t0, ets.iter().map(|e| e.val.len()).sum::<usize>(), t2 - t1, t3 - t2, steps);
        for p in &plans { println!("  plan: {:?}", p.iter().map(|x| (x.link_idx.idx(), x.time.value as i64)).collect::<Vec<_>>()); }
    }
    Ok(())
}
