use altrios_core::prelude::*;
use altrios_core::track::*;
use altrios_core::validate::*;
use altrios_core::uc;
use std::collections::HashMap;
use crate::gen::Rng;

pub fn run(seed: u64, verbose: bool) -> Result<(), String> {
    let mut rng = Rng(seed.wrapping_mul(0x9E3779B97F4A7C15) | 1);
    let nlinks = 1 + rng.below(3) as usize;
    let mut links = vec![Link::default()];
    let grid = 10.0; // snap to grid to produce coincident boundaries
    let train_len = (1 + rng.below(5)) as f64 * grid;
    let head_end = rng.below(3) == 0;
    let mut all: Vec<(f64, f64, f64)> = vec![]; // absolute restrictions
    let mut base = 0.0;
    for i in 1..=nlinks {
        let len = (3 + rng.below(10)) as f64 * grid;
        let nr = rng.below(5) as usize;
        let mut sls = vec![];
        for _ in 0..nr {
            let a = rng.below((len / grid) as u64) as f64 * grid;
            let b = a + (1 + rng.below(((len - a) / grid) as u64)) as f64 * grid;
            let s = (2 + rng.below(5)) as f64 * 2.0;
            sls.push(SpeedLimit { offset_start: a * uc::M, offset_end: b * uc::M, speed: s * uc::MPS });
        }
        sls.sort_by(|a, b| a.partial_cmp(b).unwrap());
        sls.dedup_by(|a, b| a.offset_start == b.offset_start && a.offset_end == b.offset_end);
        for s in &sls { all.push((s.offset_start.value + base, s.offset_end.value + base + if head_end { 0.0 } else { train_len }, s.speed.value)); }
        links.push(Link {
            idx_curr: LinkIdx::new(i as u32), idx_flip: LinkIdx::new(0),
            idx_next: LinkIdx::new(if i < nlinks { i as u32 + 1 } else { 0 }), idx_next_alt: LinkIdx::new(0),
            idx_prev: LinkIdx::new(if i > 1 { i as u32 - 1 } else { 0 }), idx_prev_alt: LinkIdx::new(0),
            osm_id: None, length: len * uc::M,
            elevs: vec![Elev { offset: 0.0 * uc::M, elev: 0.0 * uc::M }, Elev { offset: len * uc::M, elev: 0.0 * uc::M }],
            headings: vec![], speed_sets: HashMap::new(),
            speed_set: Some(SpeedSet { speed_limits: sls, speed_params: vec![], is_head_end: head_end }),
            cat_power_limits: vec![], link_idxs_lockout: vec![],
        });
        base += len;
    }
    // note: empty speed_limits => SpeedSet is "fake" => invalid network; skip validation here, PathTpc::extend doesn't validate
    let speed_max = 13.0;
    let tp = TrainParams { length: train_len * uc::M, speed_max: speed_max * uc::MPS, ..TrainParams::valid() };
    let mut p = PathTpc::new(tp);
    let path: Vec<LinkIdx> = (1..=nlinks).map(|i| LinkIdx::new(i as u32)).collect();
    p.extend(&links, &path).map_err(|e| format!("extend err {e:#}"))?;
    let pts: Vec<(f64, f64)> = p.speed_points().iter().map(|sp| (sp.offset.value, sp.speed_limit.value)).collect();
    // reference
    let mut bps: Vec<f64> = vec![0.0, base + train_len + grid];
    for (a, b, _) in &all { bps.push(*a); bps.push(*b); }
    for (o, _) in &pts { bps.push(*o); }
    bps.sort_by(|a, b| a.partial_cmp(b).unwrap()); bps.dedup();
    let enforced = |x: f64| -> f64 { let mut v = f64::NAN; for (o, s) in &pts { if *o <= x { v = *s; } } v };
    let reference = |x: f64| -> f64 { let mut v = speed_max; for (a, b, s) in &all { if *a <= x && x < *b { v = v.min(*s); } } v };
    let mut sorted = true; for w in pts.windows(2) { if w[0].0 > w[1].0 { sorted = false; } }
    let mut canon = true; for w in pts.windows(2) { if w[0].1 == w[1].1 { canon = false; } }
    let mut bad = vec![];
    for w in bps.windows(2) { let x = 0.5 * (w[0] + w[1]); let e = enforced(x); let r = reference(x); if e != r { bad.push((x, e, r)); } }
    if !bad.is_empty() || !sorted || !canon {
        if verbose { println!("seed {seed}: head_end {head_end} len {train_len} restr {:?}\n  pts {:?}\n  bad {:?} sorted {sorted} canon {canon}", all, pts, bad); }
        let above = bad.iter().any(|(_, e, r)| e > r);
        return Err(format!("mismatch above={above} sorted={sorted} canon={canon}"));
    }
    Ok(())
}
